#!/usr/bin/env python3
# Assembles /verif/DESIGN.md: design/part1_head.md + generated §4 (from tools/claims.py, props.json, known_findings.json,
# baseline/*.json) + design/part1_tail.md (with the catch table generated from seeded/CATCH.json) + design/part2_plan.md.
import json, os, re
V = '/verif'
props = [json.loads(l) for l in open(f'{V}/properties.jsonl')]
claims = {}
exec(open(f'{V}/tools/claims.py').read())
cfg = {p['id']: p for p in json.load(open(f'{V}/props.json'))}
kf = json.load(open(f'{V}/known_findings.json'))
out = [open(f'{V}/design/part1_head.md').read().rstrip('\n'), '', '## 4. Property by property', '']
for p in props:
    pid = p['id']
    title = p.get('title') or p.get('name') or ''
    out.append(f'### {pid} — {title}'); out.append('')
    out.append('**Decided (proof):** ' + claims[pid]['text']); out.append('')
    und = cfg.get(pid, {}).get('undecided', [])
    if und:
        out.append('**Not decided by this check:**')
        out += ['* ' + u for u in und]; out.append('')
    ass = cfg.get(pid, {}).get('assumed', [])
    if ass:
        out.append('**Assumed (property-specific, beyond §3):**')
        out += ['* ' + u for u in ass]; out.append('')
    k = [x for x in kf if x['property'] == pid]
    if k:
        out.append('**Known findings (printed as `KNOWN-FINDING`, genuine defects recorded, not repaired):**')
        out += [f"* {x.get('defect','')}: {x['what']}" for x in k]; out.append('')
    b = json.load(open(f'{V}/baseline/{pid}.json'))
    out.append(f"*Baseline on the repaired tree: {len(b['claimed'])} obligations claimed, {len(b['unclaimed'])} listed unclaimed.*"); out.append('')
tail = open(f'{V}/design/part1_tail.md').read()
catch = ''
cj = f'{V}/seeded/CATCH.json'
if os.path.exists(cj):
    C = json.load(open(cj))
    rows = ['| change | what it breaks | reported by | first failing obligation |', '|---|---|---|---|']
    own = sib = miss = 0
    for r in C['changes']:
        pid = r['id'].split('-')[0]
        by = r['caught_by']
        if pid in by: own += 1
        elif by: sib += 1
        else: miss += 1
        first = ''
        for q in ([pid] if pid in by else by):
            o = r.get('obligations', {}).get(q, [])
            if o: first = '`' + o[0][:110] + '`'; break
        rows.append(f"| {r['id']} | {r.get('summary','')[:150]} | {' '.join(by) if by else '**missed**'} | {first} |")
    catch = (f"Of {len(C['changes'])} changes, {own} are reported by the check of the property they were written against, "
             f"{sib} only by the check of another property, {miss} by none (discussed below the table).\n\n" + '\n'.join(rows))
tail = tail.replace('@@CATCH@@', catch)
out.append(tail.rstrip('\n')); out.append('')
out.append('# Part II — the plan written before the code (kept for the record; superseded by Part I)'); out.append('')
plan = open(f'{V}/design/part2_plan.md').read()
lines, fence = [], False
for l in plan.split('\n'):  # demote headings one level (outside code fences)
    if l.startswith('```'): fence = not fence
    if not fence and re.match(r'#+ ', l): l = '#' + l
    lines.append(l)
plan = '\n'.join(lines)
out.append(plan)
open(f'{V}/DESIGN.md', 'w').write('\n'.join(out))
print('DESIGN.md', sum(len(x.split('\n')) for x in out), 'lines')
