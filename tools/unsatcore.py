#!/usr/bin/env python3
import subprocess,re,sys
s=open(sys.argv[1]).read().split('\n')
out=['(set-option :produce-unsat-cores true)']
n=0
asserts=[]
for l in s:
    if l.startswith('(assert '):
        n+=1; asserts.append(l)
        out.append('(assert (! %s :named a%d))'%(l[len('(assert '):-1],n))
    elif l.startswith('(set-option :produce-models') or l.startswith('(get-model'):
        continue
    else: out.append(l)
out.append('(get-unsat-core)')
open('/tmp/core.smt2','w').write('\n'.join(out))
r=subprocess.run(['z3-new','/tmp/core.smt2'],capture_output=True,text=True).stdout
print(r.split('\n')[0])
for c in re.findall(r'a(\d+)',r.split('\n',1)[1] if '\n' in r else ''):
    print(c, asserts[int(c)-1][:400])
