#!/bin/bash
# catch_one.sh <seeded-id> : apply one seeded change to a scratch copy of /repo's HEAD, run all claimed checks
# against that copy (GOVC_REPO), record which properties report a violation; remove the copy.
set -u
export GOFLAGS=-mod=mod GOPROXY=off GOSUMDB=off GOTOOLCHAIN=local
ID=$1; PATCHFILE=${2:-/verif/seeded/$1/patch.diff}
S=/tmp/cm2/$ID; rm -rf $S; mkdir -p $S/repo $S/work $S/ev
git -C /repo archive HEAD | tar -x -C $S/repo
cd $S/repo && git init -q . 2>/dev/null && git apply $PATCHFILE 2>$S/apply.err || { echo "{\"id\":\"$ID\",\"error\":\"patch does not apply\"}" > /tmp/cm2/$ID.json; rm -rf $S; exit 1; }
go build ./... 2>$S/build.err || { echo "{\"id\":\"$ID\",\"error\":\"does not build\"}" > /tmp/cm2/$ID.json; rm -rf $S; exit 1; }
cd /verif
caught=""; errs=""
out=$(GOVC_REPO=$S/repo GOVC_WORK=$S/work GOVC_EVIDENCE_DIR=$S/ev ${GOVC_BIN:-bin/govc} check -p all 2>&1)
for p in $(echo "$out" | awk '/^EXIT /{ if ($3==1) print $2 }'); do
  caught="$caught $p"
  echo "$out" | grep "^VIOLATION property=$p " | sed 's/ replay=[^ ]*//' | cut -c1-200 > /tmp/cm2/$ID.$p.viol
done
for p in $(echo "$out" | awk '/^EXIT /{ if ($3>=2) print $2 }'); do errs="$errs $p"; done
if ! echo "$out" | grep -q "^EXIT "; then errs="all"; fi
python3 - "$ID" "$caught" "$errs" <<'PY'
import json,sys,glob,os
id,caught,errs=sys.argv[1],sys.argv[2].split(),sys.argv[3].split()
v={}
for p in caught:
    f=f'/tmp/cm2/{id}.{p}.viol'
    if os.path.exists(f):
        v[p]=[l.strip().split('obligation=')[-1] for l in open(f) if l.strip()][:6]
        os.remove(f)
json.dump({"id":id,"caught_by":caught,"engine_errors":errs,"obligations":v},open(f'/tmp/cm2/{id}.json','w'),indent=1)
PY
rm -rf $S
