#!/bin/bash
# replay.sh <pkg> [<TestRegexp>] : run the replay tests of /verif/replays/<pkg> against the real code via go test -overlay
# (nothing is written into /repo).
set -u
export GOFLAGS=-mod=mod GOPROXY=off GOSUMDB=off GOTOOLCHAIN=local
PKG=$1; RX=${2:-'Test(Replay|Fixed[^R])'}
OV=$(mktemp /tmp/govc-ov.XXXXXX.json)
REPL="\"/repo/$PKG/zz_verif_replay_test.go\":\"/verif/replays/$PKG/zz_verif_replay_test.go\""
if [ -f /verif/replays/$PKG/zz_verif_race_test.go ]; then REPL="$REPL,\"/repo/$PKG/zz_verif_race_test.go\":\"/verif/replays/$PKG/zz_verif_race_test.go\""; fi
echo "{\"Replace\":{$REPL}}" > $OV
if [ "$RX" = race ]; then
  # race replays: each TestRace* is run alone under the race detector; "reproduced" = a DATA RACE is reported
  rc=0
  for t in $(grep -o 'func TestRace[A-Za-z0-9_]*' /verif/replays/$PKG/zz_verif_race_test.go | awk '{print $2}'); do
    out=$(cd /repo/$PKG && go test -race -overlay $OV -vet=off -count=1 -timeout 180s -run "^$t\$" . 2>&1)
    if echo "$out" | grep -q "DATA RACE"; then echo "--- RACE-REPRODUCED: $t"; else echo "--- NO-RACE-SEEN: $t"; rc=1; fi
  done
  rm -f $OV; exit $rc
fi
if [ "$RX" = fixedrace ]; then
  # regression of repaired races: TestFixedRace* under the race detector must stay silent
  out=$(cd /repo/$PKG && go test -race -overlay $OV -vet=off -count=1 -timeout 180s -run '^TestFixedRace' -v . 2>&1); rc=$?
  echo "$out" | grep -E "^(--- |PASS|FAIL|ok)|DATA RACE"
  if echo "$out" | grep -q "DATA RACE"; then rc=1; fi
  rm -f $OV; exit $rc
fi
cd /repo/$PKG && go test -overlay $OV -vet=off -count=1 -timeout 120s -run "$RX" -v . 2>&1 | grep -E "^(=== RUN|--- |PASS|FAIL|ok|panic)" ; rc=${PIPESTATUS[0]}
rm -f $OV
exit $rc
