#!/bin/bash
# replay.sh <pkg> [<TestRegexp>] : run the replay tests of /verif/replays/<pkg> against the real code via go test -overlay
# (nothing is written into /repo).
set -u
export GOFLAGS=-mod=mod GOPROXY=off GOSUMDB=off GOTOOLCHAIN=local
PKG=$1; RX=${2:-'Test(Replay|Fixed)'}
OV=$(mktemp /tmp/govc-ov.XXXXXX.json)
echo "{\"Replace\":{\"/repo/$PKG/zz_verif_replay_test.go\":\"/verif/replays/$PKG/zz_verif_replay_test.go\"}}" > $OV
cd /repo/$PKG && go test -overlay $OV -vet=off -count=1 -timeout 120s -run "$RX" -v . 2>&1 | grep -E "^(=== RUN|--- |PASS|FAIL|ok|panic)" ; rc=${PIPESTATUS[0]}
rm -f $OV
exit $rc
