#!/bin/bash
# run_mutant.sh <patch.diff> <prop> [<prop>...] : apply a seeded change to /repo, run the given checks, undo it.
set -u
export GOFLAGS=-mod=mod GOPROXY=off GOSUMDB=off GOTOOLCHAIN=local
PATCH=$1; shift
cd /repo
if [ -n "$(git status --porcelain --untracked-files=no)" ]; then echo "repo dirty"; exit 2; fi
git apply "$PATCH" 2>/dev/null || git apply -3 "$PATCH" 2>/dev/null || { echo "PATCH-DOES-NOT-APPLY $PATCH"; git checkout -q HEAD -- .; git reset -q; exit 3; }
git reset -q 2>/dev/null
if ! go build ./... 2>/tmp/mutbuild.log; then echo "MUTANT-DOES-NOT-BUILD"; git checkout -q -- .; exit 3; fi
cd /verif
for p in "$@"; do
  out=$(GOVC_EVIDENCE_DIR=/tmp/govc-mutant-evidence bin/govc check -p $p 2>&1); rc=$?
  echo "== $p rc=$rc"
  echo "$out" | grep -E "^VIOLATION|engine error|^$p:" | cut -c1-300
done
cd /repo && git checkout -q -- . && git clean -fdq -- core sys service cron crolt storage 2>/dev/null
