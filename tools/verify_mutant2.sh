#!/bin/bash
# verify_mutant2.sh <prop> <mN> : confirm a round-2 seeded change (/tmp/seed2/<prop>/out/<mN>) in a scratch copy of /repo's HEAD
# (contract files removed, they are comment-only): applies, builds, the 197 stable tests still pass, the demo fails with the
# change and passes without it. Writes /tmp/mv2/results/<prop>_<mN>.json ; removes the copy afterwards.
set -u
export GOFLAGS=-mod=mod GOPROXY=off GOSUMDB=off GOTOOLCHAIN=local
P=$1; M=$2
SRC=${SEEDDIR:-/tmp/seed2}/$P/out/$M
WT=${MVDIR:-/tmp/mv2}/${P}_$M
RES=${MVDIR:-/tmp/mv2}/results; mkdir -p $RES
OUT=$RES/${P}_$M.json
rm -rf $WT; mkdir -p $WT
git -C /repo archive HEAD | tar -x -C $WT
cleanup() { rm -rf $WT; }
trap cleanup EXIT
cd $WT
fail() { echo "{\"id\":\"$P/$M\",\"ok\":false,\"why\":\"$1\"}" > $OUT; cat $OUT; exit 1; }
git init -q . ; git add -A >/dev/null; git -c user.name=x -c user.email=x@x commit -qm base
git apply $SRC/patch.diff || fail "patch does not apply"
if git diff --name-only | grep -q "_test.go\|zz_contracts"; then fail "patch touches tests or contracts"; fi
go build ./... 2>$RES/${P}_$M.build.log || fail "build"
demo=$(ls $SRC/zz_demo_*_test.go 2>/dev/null | head -1)
[ -n "$demo" ] || fail "no demo"
pkgname=$(grep -m1 '^package ' $demo | awk '{print $2}')
case $pkgname in core|core_test) d=core;; sys|sys_test) d=sys;; service|service_test) d=service;; cron|cron_test) d=cron;; main) d=crolt;; bolt|bolt_test) d=storage/bolt;; *) d=$pkgname;; esac
rm -f crolt/my.db
go test -vet=off -count=1 -timeout 25m -json ./... > $RES/${P}_$M.suite.json 2>/dev/null
python3 - $RES/${P}_$M.suite.json > $RES/${P}_$M.suite.txt <<'PY'
import json,sys
base=set(json.load(open('/root/.vp/BASELINE.json'))['stable_pass'])
res={}
for l in open(sys.argv[1]):
    try: e=json.loads(l)
    except: continue
    if e.get('Test') and e.get('Action') in('pass','fail','skip'):
        res[e['Package']+'::'+e['Test']]=e['Action']
bad=[t for t in base if res.get(t)!='pass']
print(json.dumps({"stable_not_passing":sorted(bad),"n":len(res)}))
PY
bad=$(python3 -c "import json;print(len(json.load(open('$RES/${P}_$M.suite.txt'))['stable_not_passing']))")
cp $demo $d/
tname=$(grep -o 'func TestDemo[A-Za-z0-9_]*' $demo | head -1 | awk '{print $2}')
rm -f crolt/my.db
go test -vet=off -count=1 -timeout 300s -run "^${tname}\$" ./$d/ > $RES/${P}_$M.demo_mut.log 2>&1; rc_mut=$?
git apply -R $SRC/patch.diff || fail "cannot revert"
rm -f crolt/my.db
go test -vet=off -count=1 -timeout 300s -run "^${tname}\$" ./$d/ > $RES/${P}_$M.demo_clean.log 2>&1; rc_clean=$?
ok=false; [ "$bad" = 0 -a $rc_mut -ne 0 -a $rc_clean -eq 0 ] && ok=true
echo "{\"id\":\"$P/$M\",\"ok\":$ok,\"stable_not_passing\":$bad,\"demo_with_mutant_rc\":$rc_mut,\"demo_clean_rc\":$rc_clean,\"pkg\":\"$d\",\"test\":\"$tname\"}" > $OUT
cat $OUT
