#!/bin/bash
# benigntest.sh [-j N] : must-pass corpus. Every behaviour-preserving edit in /verif/benign/<id>/patch.diff (written by
# independent sub-agents that were asked for everyday refactorings of the code each property depends on) is applied to a
# scratch copy of /repo's HEAD and all twenty checks are run against the copy. An edit that makes a check report a violation
# is a FALSE ALARM; benign/RESULTS.json records which edits are known to do so (and why). Exit 1 if an edit that is not
# listed there raises an alarm.
# The canaries of benign/canaries (an edit the tolerance reads through COMBINED with a property-breaking change) are run as
# well and must be reported; `benigntest.sh canaries` runs only those.
set -u
J=4; [ "${1:-}" = "-j" ] && J=$2
cd /verif
rm -rf /tmp/cm2; mkdir -p /tmp/cm2
crc=0
for l in benign/canaries/L*.diff; do
  id=$(basename $l .diff)
  GOVC_NO_WITNESS=1 tools/catch_patch.sh $id /verif/$l > /dev/null 2>&1
  if python3 -c "import json,sys; r=json.load(open('/tmp/cm2/$id.json')); sys.exit(0 if r.get('caught_by') else 1)"; then echo "canary $id reported"; else echo "CANARY-NOT-REPORTED $id"; crc=1; fi
  rm -f /tmp/cm2/$id.json
done
if [ "${1:-}" = "canaries" ]; then exit $crc; fi
for d in benign/C*; do id=$(basename $d); echo "$id /verif/$d/patch.diff"; done | GOVC_NO_WITNESS=1 xargs -P $J -L 1 tools/catch_patch.sh > /tmp/cm2/all.log 2>&1
python3 - <<'PY'
import json,glob,os,sys
known={}
if os.path.exists('/verif/benign/RESULTS.json'):
    for r in json.load(open('/verif/benign/RESULTS.json'))['edits']:
        if r.get('alarms'): known[r['id']]=r['alarms']
bad=0; n=0; quiet=0
for f in sorted(glob.glob('/tmp/cm2/C*.json')):
    r=json.load(open(f)); n+=1
    by=r.get('caught_by',[])
    if r.get('error'): print('ERROR',r['id'],r['error']); bad+=1
    elif by and r['id'] not in known: print('FALSE-ALARM',r['id'],by); bad+=1
    elif by: print('known false alarm',r['id'],by)
    else: quiet+=1
print(f'{quiet}/{n} harmless edits raise no alarm; {bad} unexpected')
sys.exit(1 if bad else 0)
PY
rc=$?
[ $crc -ne 0 ] && exit 1
exit $rc
