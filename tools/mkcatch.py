#!/usr/bin/env python3
# Collects the results of tools/catch_one.sh (/tmp/cm/<id>.json) into seeded/CATCH.json and seeded/<id>/meta.json (caught_by).
import json, glob, os, re, subprocess
V='/verif'
rows=[]
for d in sorted(glob.glob(f'{V}/seeded/C*-m*')):
    id=os.path.basename(d)
    f=f'/tmp/cm/{id}.json'
    meta=json.load(open(f'{d}/meta.json'))
    if os.path.exists(f):
        r=json.load(open(f))
        # a property whose only failing obligations are timeouts / unknown is 'undecided', not a catch (machine load)
        cb=[];ub=[]
        for q in r.get('caught_by',[]):
            obs=r.get('obligations',{}).get(q,[])
            hard=[o for o in obs if not re.search(r'status=(timeout|unknown)\b',o)]
            (cb if (hard or not obs) else ub).append(q)
        meta['caught_by']=cb
        meta['undecided_by']=ub
        meta['failing_obligations']={k:[re.sub(r'\s+(status=\S+\s*)?(missing\s*)?(no-failing-input-found)?$','',o) for o in v] for k,v in r.get('obligations',{}).items()}
        json.dump(meta,open(f'{d}/meta.json','w'),indent=1)
    summary=meta.get('summary','')
    if not summary:
        rd=os.path.join(d,'README.md')
        if os.path.exists(rd):
            for l in open(rd):
                if l.startswith('# '):
                    summary=l.strip().lstrip('# ')
                    if '—' in summary: summary=summary.split('—',1)[1].strip()
                    break
    rows.append({"id":id,"summary":summary,"caught_by":meta.get('caught_by',[]),"obligations":meta.get('failing_obligations',{})})
head=subprocess.run(['git','-C','/repo','rev-parse','--short','HEAD'],capture_output=True,text=True).stdout.strip()
json.dump({"repo_head":head,"how":"tools/catch_one.sh: change applied to a scratch copy of /repo HEAD, all 20 quick checks run against the copy","changes":rows},open(f'{V}/seeded/CATCH.json','w'),indent=1)
print(len(rows),'changes;', sum(1 for r in rows if not r['caught_by']),'missed')
