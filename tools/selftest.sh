#!/bin/bash
# selftest.sh [-j N] : must-fail corpus. Every seeded change (seeded/<id>/patch.diff) is applied to a scratch copy of /repo's HEAD
# and all twenty checks are run against the copy (tools/catch_one.sh). A change that seeded/CATCH.json records as caught and that
# no check reports any more is a REGRESSION of the machinery (exit 1). Run after every engine or contract change.
set -u
J=4; [ "${1:-}" = "-j" ] && J=$2
cd /verif
rm -rf /tmp/cm; mkdir -p /tmp/cm
ls seeded | grep '^C[0-9][0-9]-m' | GOVC_NO_WITNESS=1 xargs -P $J -L 1 tools/catch_one.sh > /tmp/cm/all.log 2>&1
python3 - <<'PY'
import json,glob,os,sys
exp={}
if os.path.exists('/verif/seeded/CATCH.json'):
    for r in json.load(open('/verif/seeded/CATCH.json'))['changes']: exp[r['id']]=r.get('caught_by',[])
bad=0; caught=0; n=0
for f in sorted(glob.glob('/tmp/cm/C*.json')):
    r=json.load(open(f)); n+=1
    by=r.get('caught_by',[])
    if by: caught+=1
    if r.get('error'): print('ERROR',r['id'],r['error']); bad+=1
    elif exp.get(r['id']) and not by: print('REGRESSION',r['id'],'was reported by',exp[r['id']]); bad+=1
    elif r.get('engine_errors'): print('ENGINE-ERROR',r['id'],r['engine_errors']); bad+=1
print(f'{caught}/{n} seeded changes reported; {bad} regressions/errors')
sys.exit(1 if bad else 0)
PY
