#!/usr/bin/env python3
# import_round.py <seeddir> <mvdir> <round> : copy every seeded change that tools/verify_mutant2.sh confirmed
# (<mvdir>/results/<P>_<M>.json ok=true) into /verif/seeded/<P>-<M>/ with a meta.json.
import json, glob, os, shutil, sys
seed, mv, rnd = sys.argv[1], sys.argv[2], int(sys.argv[3])
n=0
for f in sorted(glob.glob(f'{mv}/results/C??_m*.json')):
    base=os.path.basename(f)
    if base.count('.')!=1: continue
    r=json.load(open(f))
    if not r.get('ok'): print('NOT CONFIRMED', r); continue
    P,M=r['id'].split('/')
    src=f'{seed}/{P}/out/{M}'; dst=f'/verif/seeded/{P}-{M}'
    if os.path.exists(dst): continue
    os.makedirs(dst)
    demos=[]
    for x in os.listdir(src):
        if x=='patch.diff' or x=='README.md' or x.startswith('zz_demo_'):
            shutil.copy(os.path.join(src,x),dst)
            if x.startswith('zz_demo_'): demos.append(x)
    meta={"id":f"{P}-{M}","breaks_property":P,"round":rnd,
     "source":"written by an independent sub-agent given only the property text and its own scratch git repository (a copy of /repo's HEAD without the contract files)",
     "patch":"patch.diff applies to /repo HEAD (git -C /repo apply)","demo_test":demos,"demo_package_dir":r['pkg'],"demo_test_name":r['test'],
     "confirmed_by_me":{"how":"tools/verify_mutant2.sh: scratch copy of /repo HEAD; patch applied; go build ./...; full suite with -json compared with the 197 stable tests of BASELINE.json; demo test with the change (must fail) and without it (must pass); copy removed",
       "stable_tests_not_passing":r['stable_not_passing'],"demo_exit_with_change":r['demo_with_mutant_rc'],"demo_exit_without_change":r['demo_clean_rc'],"ok":True},
     "needs_to_manifest":"see README.md (written by the sub-agent)","caught_by":[],"undecided_by":[],"failing_obligations":{}}
    json.dump(meta,open(f'{dst}/meta.json','w'),indent=1); n+=1
print('imported',n)
