#!/usr/bin/env python3
# Generates /verif/MANIFEST.json from the table below (kept valid at all times).
import json, subprocess, os
V = '/verif'
props = [json.loads(l) for l in open(f'{V}/properties.jsonl')]
hooks_commits = subprocess.run(['git','-C','/repo','log','--format=%h %s','eb11a34..HEAD'],capture_output=True,text=True).stdout.strip().split('\n')
hook_commits = [c.split()[0] for c in hooks_commits if c and (' verif:' in c)]

TRUST = ("Trusted base: the govc VC generator (SSA symbolic execution, Burstall heap model, contract translation), "
 "golang.org/x/tools/go/ssa, the SMT solvers. Assumed: Go integers as mathematical integers, float64 as real, "
 "effect-free logging/metrics externs, inferred write sets for uncontracted callees, dependency contracts listed in the evidence file; "
 "goroutines/channels are not modelled. Every assumption of a run is printed in its evidence file.")

claims = {}
exec(open(f'{V}/tools/claims.py').read())

checks = []
na = []
for p in props:
    pid = p['id']
    if pid in claims:
        c = claims[pid]
        checks.append({
            "property_id": pid,
            "quick_cmd": f"bin/govc check -p {pid} -tier quick",
            "thorough_cmd": f"bin/govc check -p {pid} -tier thorough",
            "evidence_file": f"evidence/{pid}.json",
            "replay_cmd_template": "bin/govc replay {path}",
            "engine": "govc",
            "level_claimed": {"category": "proof", "text": c['text'], "design_ref": c.get('ref', 'DESIGN.md §4 ' + pid)},
            "level_note": c.get('note', TRUST),
            "technique": c.get('technique', "contract-based deductive verification: weakest-precondition style VCs generated from go/ssa of the real code against //@ contracts, discharged by z3/cvc5"),
        })
    else:
        na.append({"property_id": pid, "reason": NA.get(pid, "check not built yet (engine under construction)")})
m = {
 "version": 1,
 "setup_cmd": "./setup.sh",
 "hooks": {"guard": "verif",
           "enable": "contracts are comment-only files /repo/<pkg>/zz_contracts_verif.go behind //go:build verif; govc loads /repo with -tags verif",
           "baseline_off_cmd": "cd /repo && GOFLAGS=-mod=mod GOPROXY=off GOSUMDB=off go test -vet=off -count=1 -timeout 25m ./...",
           "source_commits": hook_commits, "add_only": True},
 "engines": [{"name": "govc", "path": "/verif/govc", "serves_properties": sorted(claims.keys()),
              "kind_free_text": "self-built deductive verifier for a subset of Go: VCs from go/ssa (x/tools v0.29.0) of /repo's working tree, contracts as //@ comments in build-tag-guarded comment-only files, one quantifier-free SMT query per obligation, z3 5.1 / z3 4.8 / cvc5 1.0 raced"}],
 "checks": checks,
 "not_applicable": na,
 "notes": "See DESIGN.md. known_findings.json lists genuine defects recorded (not repaired); fixed_findings.txt lists defects repaired by fix: commits in /repo. baseline/<id>.json lists the obligations claimed (discharged on the unchanged tree) and the ones left unclaimed with the reason.",
}
json.dump(m, open(f'{V}/MANIFEST.json','w'), indent=1)
print(len(checks), 'checks', len(na), 'n/a')
