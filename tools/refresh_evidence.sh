#!/bin/bash
# Re-run every claimed check (quick tier) on the unchanged tree so that the committed evidence files come from it.
cd /verif
if [ -n "$(git -C /repo status --porcelain --untracked-files=no)" ]; then echo "repo dirty: refusing"; exit 2; fi
rc=0
for p in $(python3 -c "import json;print(' '.join(c['property_id'] for c in json.load(open('MANIFEST.json'))['checks']))"); do
  out=$(bin/govc check -p $p -tier quick 2>&1); r=$?
  echo "$out" | tail -1 | cut -c1-170
  if [ $r -ne 0 ]; then echo "  !! $p exit $r"; rc=1; fi
done
exit $rc
