package sys

import (
	"sync"
	"testing"
)

// D18: System.storage is created lazily by ensureStorage with no lock held: concurrent first requests race on it.
func TestFixedRaceD18EnsureStorage(t *testing.T) {
	ctx, sys, _ := replaySystem(t, false)
	_ = ctx
	var wg sync.WaitGroup
	for g := 0; g < 8; g++ {
		wg.Add(1)
		name := string(rune('a' + g))
		go func() {
			defer wg.Done()
			c := ctx.SubContext()
			sys.AddFact(c, "loc"+name, "", `{"x":1}`)
		}()
	}
	wg.Wait()
}
