package sys

// Replay tests injected with `go test -overlay` by /verif/tools/replay.sh (never written into /repo).
// TestReplay*: reproduces a KNOWN FINDING on the real code (passes while the defect is present).

import (
	"testing"
	"time"

	. "github.com/Comcast/rulio/core"
	"github.com/Comcast/rulio/cron"
)

func replaySystem(t *testing.T, checkExistence bool) (*Context, *System, *cron.Cron) {
	ctx := TestContext("replay")
	cont := ExampleSystemControl()
	cont.LocationTTL = Forever
	conf := ExampleConfig()
	conf.CheckExistence = checkExistence
	cr, _ := cron.NewCron(nil, time.Second, "replaycron", 1000000)
	ic := &cron.InternalCron{Cron: cr}
	sys, err := NewSystem(ctx, *conf, *cont, ic)
	if err != nil {
		t.Fatal(err)
	}
	return ctx, sys, cr
}

// D32: a cache hit skips the existence check.
func TestFixedD32CacheHitChecksExistence(t *testing.T) {
	ctx, sys, _ := replaySystem(t, true)
	if _, err := sys.AddFact(ctx, "ghost", "", `{"x":1}`); err == nil {
		t.Fatalf("a never-created location accepted a fact with CheckExistence on (before any unchecked open)")
	}
	// an unchecked open (what a parent lookup does) puts the location in the cache ...
	if _, err := sys.GetLocation(ctx, "ghost"); err != nil {
		t.Fatal(err)
	}
	// ... and the existence check must still be made on the cache hit:
	if _, err := sys.AddFact(ctx, "ghost", "", `{"x":1}`); err == nil {
		t.Fatalf("a cached, never-created location accepted a fact with CheckExistence on (D32)")
	}
	// a created location keeps working through the cache
	if _, err := sys.CreateLocation(ctx, "real"); err != nil {
		t.Fatal(err)
	}
	for i := 0; i < 2; i++ {
		if _, err := sys.AddFact(ctx, "real", "", `{"x":1}`); err != nil {
			t.Fatalf("created location refused a fact: %v", err)
		}
	}
}

const schedRule = `{"schedule":"+1h","action":{"code":"1"}}`

// D10: a scheduled rule removed as a deleteWith dependent keeps its cron job.
func TestReplayD10CascadeLeavesCronJob(t *testing.T) {
	ctx, sys, cr := replaySystem(t, false)
	if _, err := sys.AddFact(ctx, "here", "parent", `{"x":1}`); err != nil {
		t.Fatal(err)
	}
	if _, err := sys.AddRule(ctx, "here", "r", `{"schedule":"+1h","action":{"code":"1"},"deleteWith":["parent"]}`); err != nil {
		t.Fatal(err)
	}
	if n := cr.PendingCount(); n != 1 {
		t.Fatalf("want 1 pending job, got %d", n)
	}
	if _, err := sys.RemFact(ctx, "here", "parent"); err != nil {
		t.Fatal(err)
	}
	if _, err := sys.GetRule(ctx, "here", "r"); err == nil {
		t.Fatalf("dependent rule still there")
	}
	if n := cr.PendingCount(); n != 1 {
		t.Fatalf("the known finding D10 seems to be gone (pending jobs = %d): update known_findings.json", n)
	}
}

// D29: overwriting a scheduled rule with an unscheduled one leaves the job.
func TestReplayD29OverwriteLeavesCronJob(t *testing.T) {
	ctx, sys, cr := replaySystem(t, false)
	if _, err := sys.AddRule(ctx, "here", "r", schedRule); err != nil {
		t.Fatal(err)
	}
	if _, err := sys.AddRule(ctx, "here", "r", `{"when":{"pattern":{"a":1}},"action":{"code":"1"}}`); err != nil {
		t.Fatal(err)
	}
	if n := cr.PendingCount(); n != 1 {
		t.Fatalf("the known finding D29 seems to be gone (pending jobs = %d): update known_findings.json", n)
	}
}

// D11 (repaired): a parent loop that goes through another location (a -> b -> a) recursed until the stack overflowed
// (DoAncestors only detected a location naming ITSELF as a parent). Now every operation that walks the ancestors reports
// AncestorLoop. A diamond (a -> b -> d, a -> c -> d) is not a loop and keeps working.
func TestFixedD11IndirectParentLoopIsAnError(t *testing.T) {
	ctx, sys, _ := replaySystem(t, false)
	if _, err := sys.SetParents(ctx, "a", []string{"b"}); err != nil {
		t.Fatal(err)
	}
	if _, err := sys.SetParents(ctx, "b", []string{"a"}); err != nil {
		t.Fatal(err)
	}
	if _, err := sys.SearchFacts(ctx, "a", `{"x":"?x"}`, true); err == nil {
		t.Fatalf("an inherited search in a parent loop succeeded")
	}
	// diamond
	for _, l := range [][]string{{"top", "left", "right"}, {"left", "base"}, {"right", "base"}} {
		if _, err := sys.SetParents(ctx, l[0], l[1:]); err != nil {
			t.Fatal(err)
		}
	}
	if _, err := sys.AddFact(ctx, "base", "f", `{"x":1}`); err != nil {
		t.Fatal(err)
	}
	srs, err := sys.SearchFacts(ctx, "top", `{"x":"?x"}`, true)
	if err != nil {
		t.Fatalf("inherited search through a diamond failed: %v", err)
	}
	if len(srs.Found) != 2 {
		t.Fatalf("expected the base fact once per path (2), got %d", len(srs.Found))
	}
}
