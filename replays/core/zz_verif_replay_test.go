package core

// Replay tests injected with `go test -overlay` by /verif/tools/replay.sh (never written into /repo).
// TestReplay*: reproduces a KNOWN FINDING on the real code (passes while the defect is present).
// TestFixed*:  regression for a defect repaired by a "fix:" commit (passes on the repaired tree).

import (
	"testing"
	"time"
)

func rrule(when string) Map {
	return mapJSv(`{"when":{"pattern":` + when + `},"action":{"code":"1"}}`)
}

func mapJSv(js string) Map {
	m, err := ParseMap(js)
	if err != nil {
		panic(err)
	}
	return m
}

func indexedLoc(t *testing.T, name string) (*Context, *Location) {
	ctx := NewContext("replay")
	store, _ := NewMemStorage(ctx)
	state, _ := NewIndexedState(ctx, name, store)
	loc, err := NewLocation(ctx, name, state, nil)
	if err != nil {
		t.Fatal(err)
	}
	ctx.SetLoc(loc)
	return ctx, loc
}

// D1 (fixed): overwrite rule X with a different 'when', remove X: events matching X's OLD pattern must still reach rule Y.
func TestFixedD1OverwrittenRulePatternLeavesIndex(t *testing.T) {
	ctx, loc := indexedLoc(t, "d1")
	must := func(_ string, err error) {
		if err != nil {
			t.Fatal(err)
		}
	}
	must(loc.AddRule(ctx, "X", rrule(`{"a":1}`)))
	must(loc.AddRule(ctx, "Y", rrule(`{"a":1}`)))
	must(loc.AddRule(ctx, "X", rrule(`{"b":2}`)))
	must(loc.RemRule(ctx, "X"))
	fr, cond := loc.ProcessEvent(ctx, mapJSv(`{"a":1}`))
	if cond != nil {
		t.Fatalf("condition %v", cond)
	}
	if len(fr.Children) != 1 {
		t.Fatalf("want 1 dispatched rule, got %d", len(fr.Children))
	}
}

// D2 (fixed): overwrite rule X with a plain fact: events matching X's old pattern must not fail.
func TestFixedD2RuleOverwrittenByFact(t *testing.T) {
	ctx, loc := indexedLoc(t, "d2")
	if _, err := loc.AddRule(ctx, "X", rrule(`{"a":1}`)); err != nil {
		t.Fatal(err)
	}
	if _, err := loc.AddFact(ctx, "X", mapJSv(`{"likes":"tacos"}`)); err != nil {
		t.Fatal(err)
	}
	fr, cond := loc.ProcessEvent(ctx, mapJSv(`{"a":1}`))
	if cond != nil {
		t.Fatalf("condition %v", cond)
	}
	if len(fr.Children) != 0 {
		t.Fatalf("want 0 dispatched rules, got %d", len(fr.Children))
	}
}

// D9 (fixed): ttl as Go int64 is relative.
func TestFixedD9Int64TTL(t *testing.T) {
	ctx, loc := indexedLoc(t, "d9")
	if _, err := loc.AddFact(ctx, "f", Map{"likes": "tacos", "ttl": int64(60)}); err != nil {
		t.Fatalf("int64 ttl rejected: %v", err)
	}
}

// D25 (known finding): with id injection at write, a fact carrying a different _id panics.
func TestFixedD25InjectIdConflictIsAnError(t *testing.T) {
	old := SystemParameters.IdInjectionTime
	SystemParameters.IdInjectionTime = InjectIdAtWrite
	defer func() { SystemParameters.IdInjectionTime = old }()
	ctx, loc := indexedLoc(t, "d25")
	defer func() {
		if r := recover(); r != nil {
			t.Fatalf("a fact carrying a different _id panicked again (D25): %v", r)
		}
	}()
	if _, err := loc.AddFact(ctx, "a", mapJSv(`{"_id":"b","x":1}`)); err == nil {
		t.Fatalf("a fact carrying a different _id was accepted")
	}
	if _, err := loc.AddFact(ctx, "c", mapJSv(`{"_id":"c","x":1}`)); err != nil {
		t.Fatalf("a fact carrying its own _id was refused: %v", err)
	}
}

// D39 (repaired): Location.SetProp / RemProp ignored the write key.
func TestFixedD39SetPropRemPropCheckTheWriteKey(t *testing.T) {
	ctx, loc := indexedLoc(t, "d39")
	if err := loc.SetProp(ctx, "", "writeKey", "secret"); err != nil {
		t.Fatal(err)
	}
	if _, err := loc.AddFact(ctx, "f", mapJSv(`{"x":1}`)); err == nil {
		t.Fatalf("write key not enforced on AddFact?")
	}
	// no key presented:
	if err := loc.SetProp(ctx, "", "writeKey", "mine"); err == nil {
		t.Fatalf("SetProp overwrote the write key without the key (D39)")
	}
	if err := loc.RemProp(ctx, "", "writeKey"); err == nil {
		t.Fatalf("RemProp removed the write key without the key (D39)")
	}
	// with the key:
	ctx.WriteKey = "secret"
	if err := loc.SetProp(ctx, "", "color", "blue"); err != nil {
		t.Fatalf("SetProp refused with the right key: %v", err)
	}
}

// D38 (fixed): SetParents checks the write key.
func TestFixedD38SetParentsChecksWriteKey(t *testing.T) {
	ctx, loc := indexedLoc(t, "d38")
	if err := loc.SetProp(ctx, "", "writeKey", "secret"); err != nil {
		t.Fatal(err)
	}
	if _, err := loc.SetParents(ctx, []string{"p"}); err == nil {
		t.Fatalf("SetParents succeeded without the write key")
	}
}

// D13 / D14 (fixed): disabled location.
func TestFixedD13D14DisabledLocation(t *testing.T) {
	ctx, loc := indexedLoc(t, "d13")
	if err := loc.SetProp(ctx, "", "enabled", "false"); err != nil {
		t.Fatal(err)
	}
	if _, err := loc.StateSize(ctx); err == nil {
		t.Fatalf("StateSize answered in a disabled location")
	}
	fr, _ := loc.ProcessEvent(ctx, mapJSv(`{"evaluate!":{"when":{"pattern":{"a":"?x"}},"action":{"code":"42"}},"a":1}`))
	if fr != nil && len(fr.Values) != 0 {
		t.Fatalf("embedded rule ran in a disabled location: %v", fr.Values)
	}
}

// D19 / D4 (fixed): ill-typed rule bodies do not panic.
func TestFixedD19D4IllTypedRules(t *testing.T) {
	ctx, loc := indexedLoc(t, "d19")
	loc.AddFact(ctx, "r", mapJSv(`{"rule":{"when":5}}`))
	loc.AddFact(ctx, "r2", mapJSv(`{"rule":{"when":{"pattern":5}}}`))
	lctx := NewContext("replay")
	store, _ := NewMemStorage(lctx)
	ls, _ := NewLinearState(lctx, "lin", store)
	lloc, _ := NewLocation(lctx, "lin", ls, nil)
	lctx.SetLoc(lloc)
	if _, err := lloc.AddFact(lctx, "x", mapJSv(`{"rule":5}`)); err != nil {
		t.Fatal(err)
	}
	lloc.ProcessEvent(lctx, mapJSv(`{"a":1}`))
}

// D43 / D44 (fixed): throttle / simple breaker accounting.
func TestFixedD43D44(t *testing.T) {
	open := NewSimpleBreaker(func() (float64, error) { return 10, nil }, 1) // open
	open.Disable(true)
	runs := 0
	th, _ := NewThrottle(3, 1, 0, open)
	th.Submit(func() error { runs++; return nil })
	if runs != 1 {
		t.Fatalf("function ran %d times", runs)
	}
	th2, _ := NewThrottle(1, 0, 0, open)
	th2.Disable(true)
	th2.pending = 5
	th2.Submit(func() error { return nil })
	if p, _ := th2.Pending(); p != 5 {
		t.Fatalf("pending leaked: %d", p)
	}
}

func TestFixedD24BreakerIntervalShorterThanTicks(t *testing.T) {
	// before the repair: accepted, and the first Do / Status divided by zero in slide()
	if b, err := NewOutboundBreaker(10, 3); err == nil {
		defer func() {
			if r := recover(); r != nil {
				t.Fatalf("breaker with a 3ns interval panicked: %v", r)
			}
		}()
		b.Do(func() error { return nil })
	}
}

func TestFixedResolveServiceEmptyURLList(t *testing.T) {
	ctx, loc := indexedLoc(t, "rs")
	c := *loc.Control()
	c.Services = map[string][]string{"svc": {}}
	loc.SetControl(&c)
	got, err := loc.ResolveService(ctx, "svc")
	if err != nil || got != "svc" {
		t.Fatalf("got %q, %v", got, err)
	}
}

// D42 (repaired): a breaker polled more often than one tick of its window never slid its window (slide() moved 'updated'
// forward on every call, discarding the elapsed fraction), so it stayed open for as long as it was polled.
func TestFixedD42BreakerReopensWhilePolled(t *testing.T) {
	b, err := NewOutboundBreaker(2, 200*time.Millisecond) // 20 ticks of 10ms
	if err != nil {
		t.Fatal(err)
	}
	for i := 0; i < 2; i++ {
		if !b.Zap() {
			t.Fatalf("call %d refused below the limit", i)
		}
	}
	if b.Zap() {
		t.Fatalf("third call admitted: limit not enforced")
	}
	// poll every millisecond (ten polls per tick) for three windows
	admitted := false
	deadline := time.Now().Add(600 * time.Millisecond)
	for time.Now().Before(deadline) {
		if b.Zap() {
			admitted = true
			break
		}
		time.Sleep(time.Millisecond)
	}
	if !admitted {
		t.Fatalf("the breaker never reopened while it was polled (D42)")
	}
}

// D27: a script that runs past its time limit. Before the repair the caller was blocked forever (the deferred clean-up sent
// on an unbuffered channel whose receiver - the watchdog - had already exited).
func TestFixedD27TimedOutScriptReturns(t *testing.T) {
	oldT, oldD := SystemParameters.JavascriptTimeouts, SystemParameters.DefaultJavascriptTimeout
	SystemParameters.JavascriptTimeouts, SystemParameters.DefaultJavascriptTimeout = true, 50*time.Millisecond
	defer func() { SystemParameters.JavascriptTimeouts, SystemParameters.DefaultJavascriptTimeout = oldT, oldD }()
	ctx := NewContext("d27")
	done := make(chan error, 1)
	go func() {
		_, err := RunJavascript(ctx, nil, nil, "var n = 0; for(;;){ n = n + 1; }")
		done <- err
	}()
	select {
	case err := <-done:
		if err == nil {
			t.Fatalf("the timed-out script was reported as a success (nil error)")
		}
	case <-time.After(3 * time.Second):
		t.Fatalf("the caller did not get control back 3s after a 50ms script timeout (D27)")
	}
}

// D50 (repaired): IndexedState.Load deleted a record that expired while the location was not in memory straight from
// storage, without the deleteWith cascade: the dependents of the expired rule (its "disabled" flag, say) survived, and a rule
// added later under the same id inherited them. (C08: "deleteWith removes exactly the dependents"; C10: the flag goes with
// the rule.) Regression test of the repair.
func TestFixedD50ExpiredAtLoadTakesDependents(t *testing.T) {
	ctx := NewContext("d50")
	store, _ := NewMemStorage(ctx)
	open := func() *Location {
		state, err := NewIndexedState(ctx, "d50", store)
		if err != nil {
			t.Fatal(err)
		}
		loc, err := NewLocation(ctx, "d50", state, nil)
		if err != nil {
			t.Fatal(err)
		}
		loc.SetControl(&Control{MaxFacts: 1000})
		return loc
	}
	loc := open()
	if _, err := loc.AddRule(ctx, "r1", mapJSv(`{"ttl":"1s","when":{"pattern":{"wants":"?x"}},"action":{"code":"1"}}`)); err != nil {
		t.Fatal(err)
	}
	if err := loc.EnableRule(ctx, "r1", false); err != nil {
		t.Fatal(err)
	}
	time.Sleep(2100 * time.Millisecond)
	loc = open() // reload: r1 has expired in the meantime
	if _, err := loc.AddRule(ctx, "r1", mapJSv(`{"when":{"pattern":{"wants":"?x"}},"action":{"code":"2"}}`)); err != nil {
		t.Fatal(err)
	}
	enabled, err := loc.RuleEnabled(ctx, "r1")
	if err != nil {
		t.Fatal(err)
	}
	if !enabled {
		t.Fatalf("the new r1 is disabled: the flag of the rule that expired while the location was not in memory outlived it (D50 is back)")
	}
}
