package core

// Race replays: run with `go test -race` by /verif/tools/replay.sh <pkg> race. A known lockset finding is
// "reproduced" when the race detector reports a DATA RACE for it.

import (
	"sync"
	"testing"
)

// D15: the parsed-rule cache is written by Add (outside the lock) and read/written by FindCachedRules (no lock).
func TestRaceD15CachedRules(t *testing.T) {
	ctx, loc := indexedLoc(t, "race15")
	var wg sync.WaitGroup
	wg.Add(2)
	go func() {
		defer wg.Done()
		c := NewContext("a")
		c.SetLoc(loc)
		for i := 0; i < 300; i++ {
			loc.AddRule(c, "X", rrule(`{"a":1}`))
		}
	}()
	go func() {
		defer wg.Done()
		c := NewContext("b")
		c.SetLoc(loc)
		for i := 0; i < 300; i++ {
			loc.SearchRules(c, mapJSv(`{"a":1}`), false)
		}
	}()
	wg.Wait()
	_ = ctx
}

// D16: an expired fact is purged (map delete) by a search that holds only the read lock, concurrently with another search.
func TestRaceD16ExpireUnderReadLock(t *testing.T) {
	_, loc := indexedLoc(t, "race16")
	c0 := NewContext("w")
	c0.SetLoc(loc)
	for i := 0; i < 50; i++ {
		loc.AddFact(c0, "", Map{"likes": "tacos", "expires": float64(NowSecs() + 1)})
	}
	var wg sync.WaitGroup
	for g := 0; g < 4; g++ {
		wg.Add(1)
		go func() {
			defer wg.Done()
			c := NewContext("r")
			c.SetLoc(loc)
			for i := 0; i < 1500; i++ {
				loc.SearchFacts(c, mapJSv(`{"likes":"?x"}`), false)
			}
		}()
	}
	wg.Wait()
}

// D46 (repaired): Location.Control() lazily wrote loc.control under a read lock. Regression: run under -race by
// `tools/replay.sh core fixedrace`, no race may be reported.
func TestFixedRaceD46ControlLazyInit(t *testing.T) {
	_, loc := indexedLoc(t, "race46")
	loc.SetControl(nil) // back to "use the default": the next Control() calls initialise it lazily
	var wg sync.WaitGroup
	for g := 0; g < 8; g++ {
		wg.Add(1)
		go func() {
			defer wg.Done()
			loc.Control()
		}()
	}
	wg.Wait()
}
