package cron

// Replay tests injected with `go test -overlay` by /verif/tools/replay.sh (never written into /repo).

import (
	"sync/atomic"
	"testing"
	"time"

	"github.com/Comcast/rulio/core"
)

// D49 (repaired): removing the job the timer is aimed at left the timer aimed at the removed job's time. When it fired, the
// new head was not due, nothing re-armed the timer, and the remaining jobs never fired (until some later Add reset it).
func TestFixedD49RemOfHeadDoesNotStallTheTimeline(t *testing.T) {
	ctx := core.NewContext("d49")
	c, err := NewCron(nil, time.Second, "d49", 10)
	if err != nil {
		t.Fatal(err)
	}
	c.Start(ctx)
	time.Sleep(50 * time.Millisecond)
	var fired int32
	if err := c.Add(ctx, "a", "+300ms", func(time.Time) error { return nil }); err != nil {
		t.Fatal(err)
	}
	if err := c.Add(ctx, "b", "+900ms", func(time.Time) error { atomic.AddInt32(&fired, 1); return nil }); err != nil {
		t.Fatal(err)
	}
	if _, err := c.Rem(ctx, "a"); err != nil {
		t.Fatal(err)
	}
	time.Sleep(2500 * time.Millisecond)
	if n := atomic.LoadInt32(&fired); n != 1 {
		t.Fatalf("job b fired %d times in the 1.6s after it was due (D49: the timeline stalls after the head job is removed)", n)
	}
}
