#!/bin/sh
# Build the govc verifier offline from files on disk.
set -e
cd "$(dirname "$0")"
export GOFLAGS=-mod=mod GOPROXY=off GOSUMDB=off GOTOOLCHAIN=local
mkdir -p bin
if [ -d govc ]; then (cd govc && go build -o ../bin/govc .); fi
