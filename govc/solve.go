package main

import (
	"bytes"
	"context"
	"fmt"
	"os"
	"os/exec"
	"path/filepath"
	"strings"
	"sync"
	"time"
)

type solverDef struct {
	name string
	argv func(file string, timeoutS int) []string
}

var solvers = []solverDef{
	{"z3-new", func(f string, t int) []string { return []string{"z3-new", fmt.Sprintf("-T:%d", t), f} }},
	{"cvc5", func(f string, t int) []string {
		return []string{"cvc5", fmt.Sprintf("--tlimit=%d", t*1000), "--strings-exp", f}
	}},
	{"z3", func(f string, t int) []string { return []string{"z3", fmt.Sprintf("-T:%d", t), f} }},
}

var coverKinds = map[string]bool{"ensures": true, "assert": true, "requires": true, "invariant": true}

type solveResult struct {
	status string // unsat | sat | unknown | timeout | error
	solver string
	millis int64
	output string
}

// runSolvers races the installed solvers on one query file; first definitive answer wins.
func runSolvers(file string, timeoutS int) solveResult {
	ctx, cancel := context.WithCancel(context.Background())
	defer cancel()
	ch := make(chan solveResult, len(solvers))
	for _, s := range solvers {
		s := s
		go func() {
			start := time.Now()
			argv := s.argv(file, timeoutS)
			cmd := exec.CommandContext(ctx, argv[0], argv[1:]...)
			var out bytes.Buffer
			cmd.Stdout = &out
			cmd.Stderr = &out
			cmd.Run()
			o := out.String()
			first := strings.TrimSpace(strings.SplitN(o, "\n", 2)[0])
			st := "error"
			switch {
			case first == "unsat":
				st = "unsat"
			case first == "sat":
				st = "sat"
			case first == "unknown":
				st = "unknown"
			case strings.Contains(first, "timeout") || strings.Contains(o, "interrupted by timeout"):
				st = "timeout"
			case ctx.Err() != nil:
				st = "cancelled"
			}
			ch <- solveResult{st, s.name, time.Since(start).Milliseconds(), o}
		}()
	}
	var best solveResult
	best.status = "unknown"
	var errs []string
	for range solvers {
		r := <-ch
		if r.status == "unsat" || r.status == "sat" {
			return r
		}
		if r.status == "error" {
			errs = append(errs, r.solver+": "+firstLine(r.output))
		}
		if r.status == "timeout" && best.status == "unknown" {
			best = r
		}
		if best.solver == "" {
			best = r
		}
	}
	if len(errs) == len(solvers) {
		best.status = "error"
		best.output = strings.Join(errs, "\n")
	}
	return best
}

// runSolversAll runs every installed solver to completion (thorough tier: cross-solver agreement).
func runSolversAll(file string, timeoutS int) map[string]string {
	out := map[string]string{}
	var mu sync.Mutex
	var wg sync.WaitGroup
	for _, s := range solvers {
		s := s
		wg.Add(1)
		go func() {
			defer wg.Done()
			argv := s.argv(file, timeoutS)
			cmd := exec.Command(argv[0], argv[1:]...)
			var b bytes.Buffer
			cmd.Stdout = &b
			cmd.Stderr = &b
			cmd.Run()
			first := strings.TrimSpace(strings.SplitN(b.String(), "\n", 2)[0])
			st := "unknown"
			switch first {
			case "unsat", "sat":
				st = first
			}
			mu.Lock()
			out[s.name] = st
			mu.Unlock()
		}()
	}
	wg.Wait()
	return out
}

func firstLine(s string) string {
	return strings.TrimSpace(strings.SplitN(s, "\n", 2)[0])
}

func safeFile(name string) string {
	var b strings.Builder
	for _, c := range name {
		if c >= 'a' && c <= 'z' || c >= 'A' && c <= 'Z' || c >= '0' && c <= '9' || c == '.' || c == '-' || c == '_' {
			b.WriteRune(c)
		} else {
			b.WriteByte('_')
		}
	}
	s := b.String()
	if len(s) > 150 {
		s = s[:150]
	}
	return s
}

// discharge runs all obligations in parallel.
var crossCheck bool // thorough tier: every discharged obligation is re-run on all solvers

func discharge(obls []*Obligation, dir string, timeoutS int, workers int) {
	os.MkdirAll(dir, 0o755)
	var wg sync.WaitGroup
	sem := make(chan struct{}, workers)
	for i, o := range obls {
		wg.Add(1)
		sem <- struct{}{}
		go func(i int, o *Obligation) {
			defer wg.Done()
			defer func() { <-sem }()
			q := o.Script.query(o.N, []Term{o.Hyp, not(o.Goal)}, true)
			file := filepath.Join(dir, fmt.Sprintf("%04d_%s.smt2", i, safeFile(o.Name)))
			os.WriteFile(file, []byte(q), 0o644)
			r := runSolvers(file, timeoutS)
			o.Status = r.status
			o.Solver = r.solver
			o.Millis = r.millis
			if r.status == "sat" {
				o.Model = r.output
			} else if r.status == "error" {
				o.Model = r.output
			}
			if crossCheck && r.status == "unsat" {
				all := runSolversAll(file, timeoutS)
				n := 0
				for _, st := range all {
					if st == "unsat" {
						n++
					}
					if st == "sat" {
						o.Status = "solver-disagreement"
						o.Model = fmt.Sprintf("solvers disagree on this query: %v", all)
					}
				}
				o.Agree = n
			}
			// vacuity guard for contract obligations: the path condition itself must be satisfiable
			if r.status == "unsat" && coverKinds[o.Kind] {
				extra := []Term{o.Hyp}
				if o.Ante != nil {
					extra = append(extra, *o.Ante)
				}
				cq := o.Script.query(len(o.Script.asserts), extra, false)
				cfile := filepath.Join(dir, fmt.Sprintf("%04d_%s.cover.smt2", i, safeFile(o.Name)))
				os.WriteFile(cfile, []byte(cq), 0o644)
				cr := runSolvers(cfile, timeoutS)
				if cr.status == "unsat" {
					o.Status = "vacuous"
					o.Model = "the path condition (or the antecedent of the implication) of this obligation is unsatisfiable: the obligation holds vacuously (contradictory assumptions, dead code under contract, or a case that cannot occur)"
				}
			}
		}(i, o)
	}
	wg.Wait()
}
