package main

import (
	"fmt"
	"go/ast"
	"go/parser"
	"go/token"
	"golang.org/x/tools/go/ssa"
	"os"
	"path/filepath"
	"sort"
	"strconv"
	"strings"
)

type Clause struct {
	Label string // e.g. "C07.expiry_exact"
	Text  string
	Expr  ast.Expr
}

type LoopSpec struct {
	Invariants []Clause
}

type SiteAssert struct {
	Label   string
	Site    string // source text (prefix) of the instruction the assertion is attached before
	Text    string
	Expr    ast.Expr
	Hits    int
	Mark    bool            // mark[name]: not an obligation; Label is the mark's name
	AltSite string          // second accepted spelling of Site (a callee that was renamed)
	alt     ssa.Instruction // re-attachment when the quoted text matches nothing (resolveSites)
}

type Contract struct {
	Sites    []*SiteAssert
	Key      string // core.notAfter | iface:core.State.Add | funcval:core.(*Throttle).Submit.f | extern:time.ParseDuration
	Pkg      string // package short path the contract was written in (core, sys, ...)
	Requires []Clause
	Ensures  []Clause
	EachRet  []Clause // like Ensures, one obligation per return statement
	Insts    []Clause // instantiate <expr>: entry-state terms at which quantified assumptions are instantiated
	GhostEns []Clause // assumed at call sites, not checked against the body (ghost instrumentation)
	Entry    []Clause // assumed at entry when verifying the body (ghost initialisation)
	Modifies []string // raw item texts
	AlsoMods []string // ghost variables havocked in addition to the inferred write set
	HasMods  bool
	Loops    map[int]*LoopSpec
	Trusted  bool
	Pure     bool
	InlineOK bool
	File     string
	Line     int
	Props    map[string]bool
}

type Define struct {
	Name   string
	Params []string
	Body   ast.Expr
	Text   string
}

type PureFunc struct {
	Name   string
	Params []string // Go type texts
	Result string
	Pkg    string
}

type GhostVar struct {
	Gate bool // a permission flag: false at the entry of every verified function unless its contract requires it
	Name string
	Type string // Go type text (map[K]V, bool, int, string) in package scope
	Pkg  string
}

type Guard struct {
	field   string // core.IndexedState.IdToFact
	lockKey string // core.IndexedState.RWMutex
}

type ErrorGhost struct {
	Ghost   string
	Pattern string
}

type Specs struct {
	constGlobals map[string]bool
	errorGhosts  []ErrorGhost
	contracts    map[string]*Contract
	defines      map[string]*Define
	pures        map[string]*PureFunc
	ghosts       map[string]*GhostVar
	guards       map[string]*Guard
	lockOrders   [][2]string // declared acquisition order: [0] is taken before [1]
	externPure   map[string]bool
	noInline     map[string]bool
	files        []string
	trustedList  []string
}

var clauseKeywords = []string{"assert", "mark", "requires", "ensures", "ghost-ensures", "assume-entry", "modifies", "loop", "trusted", "pure-effects", "inline-ok", "instantiate"}

func loadSpecs(repo string) (*Specs, error) {
	sp := &Specs{constGlobals: map[string]bool{}, contracts: map[string]*Contract{}, defines: map[string]*Define{}, pures: map[string]*PureFunc{}, ghosts: map[string]*GhostVar{},
		guards: map[string]*Guard{}, externPure: map[string]bool{}, noInline: map[string]bool{}}
	files, _ := filepath.Glob(filepath.Join(repo, "*", "zz_contracts_verif.go"))
	more, _ := filepath.Glob(filepath.Join(repo, "*", "*", "zz_contracts_verif.go"))
	files = append(files, more...)
	sort.Strings(files)
	for _, fn := range files {
		if err := sp.parseFile(repo, fn); err != nil {
			return nil, err
		}
	}
	return sp, nil
}

func (sp *Specs) parseFile(repo, fn string) error {
	data, err := os.ReadFile(fn)
	if err != nil {
		return err
	}
	sp.files = append(sp.files, fn)
	rel, _ := filepath.Rel(repo, filepath.Dir(fn))
	pkg := rel
	if pkg == "storage/bolt" {
		pkg = "bolt"
	}
	// the file must be comment-only apart from the build tag and package clause
	var cur *Contract
	var lastClause *Clause
	var lastSite *SiteAssert
	var lastKind string
	lines := strings.Split(string(data), "\n")
	flush := func() {}
	_ = flush
	for i, raw := range lines {
		line := strings.TrimSpace(raw)
		if !strings.HasPrefix(line, "//@") {
			if line != "" && !strings.HasPrefix(line, "//") && !strings.HasPrefix(line, "package ") {
				return fmt.Errorf("%s:%d: contract file must be comment-only (found code: %q)", fn, i+1, line)
			}
			continue
		}
		body := strings.TrimSpace(strings.TrimPrefix(line, "//@"))
		if body == "" {
			continue
		}
		word, rest := splitWord(body)
		errf := func(format string, a ...interface{}) error {
			return fmt.Errorf("%s:%d: %s", fn, i+1, fmt.Sprintf(format, a...))
		}
		switch word {
		case "func", "iface", "funcval", "extern":
			name := strings.TrimSpace(rest)
			key := ""
			switch word {
			case "func":
				key = canonFuncKey(pkg, name)
			case "iface":
				key = "iface:" + pkg + "." + name
				if strings.Count(name, ".") >= 2 {
					key = "iface:" + name // an interface of another package, fully qualified (io.Reader.Read)
				}
			case "funcval":
				key = "funcval:" + canonFuncKey(pkg, name)
			case "extern":
				key = name
			}
			cur = sp.contracts[key]
			if cur == nil {
				cur = &Contract{Key: key, Pkg: pkg, Loops: map[int]*LoopSpec{}, File: fn, Line: i + 1, Props: map[string]bool{}}
				sp.contracts[key] = cur
			}
			if word == "extern" {
				cur.Trusted = true
			}
			lastClause = nil
		case "define":
			// define name(a, b) = expr
			eqi := strings.Index(rest, "=")
			lp := strings.Index(rest, "(")
			rp := strings.Index(rest, ")")
			if eqi < 0 || lp < 0 || rp < lp {
				return errf("bad define")
			}
			// find " = " after the parameter list
			eqi = strings.Index(rest[rp:], "=") + rp
			d := &Define{Name: strings.TrimSpace(rest[:lp]), Text: strings.TrimSpace(rest[eqi+1:])}
			for _, p := range strings.Split(rest[lp+1:rp], ",") {
				if p = strings.TrimSpace(p); p != "" {
					d.Params = append(d.Params, p)
				}
			}
			sp.defines[d.Name] = d
			cur = nil
			lastClause = nil
			lastKind = "define:" + d.Name
		case "spec":
			// spec name(T1, T2) R   -- uninterpreted specification function
			lp := strings.Index(rest, "(")
			rp := strings.LastIndex(rest, ")")
			if lp < 0 || rp < lp {
				return errf("bad spec")
			}
			pf := &PureFunc{Name: strings.TrimSpace(rest[:lp]), Result: strings.TrimSpace(rest[rp+1:]), Pkg: pkg}
			for _, p := range splitTop(rest[lp+1:rp], ',') {
				if p = strings.TrimSpace(p); p != "" {
					pf.Params = append(pf.Params, p)
				}
			}
			sp.pures[pf.Name] = pf
			cur, lastClause = nil, nil
		case "ghost":
			// ghost name Type
			n, t := splitWord(rest)
			t = strings.TrimSpace(t)
			gate := false
			if strings.HasSuffix(t, " gate") {
				gate = true
				t = strings.TrimSpace(strings.TrimSuffix(t, " gate"))
			}
			sp.ghosts[n] = &GhostVar{Name: n, Type: t, Pkg: pkg, Gate: gate}
			cur, lastClause = nil, nil
		case "guard":
			// guard IndexedState.IdToFact by IndexedState.RWMutex
			parts := strings.Split(rest, " by ")
			if len(parts) != 2 {
				return errf("bad guard")
			}
			g := &Guard{field: pkg + "." + strings.TrimSpace(parts[0]), lockKey: pkg + "." + strings.TrimSpace(parts[1])}
			sp.guards[g.field] = g
			cur, lastClause = nil, nil
		case "lock-order":
			// lock-order sys.CachedLocations.Mutex < sys.CachedLocation.Mutex  (full names: pkg.Type.field)
			parts := strings.Split(rest, "<")
			if len(parts) != 2 {
				return errf("bad lock-order")
			}
			sp.lockOrders = append(sp.lockOrders, [2]string{strings.TrimSpace(parts[0]), strings.TrimSpace(parts[1])})
			cur, lastClause = nil, nil
		case "extern-pure":
			for _, n := range strings.Split(rest, ",") {
				if n = strings.TrimSpace(n); n != "" {
					if strings.HasPrefix(n, "(") {
						n = canonFuncKey(pkg, n)
					} else if !strings.Contains(n, ".") {
						n = pkg + "." + n
					}
					sp.externPure[n] = true
				}
			}
			cur, lastClause = nil, nil
		case "error-ghost":
			// error-ghost <ghost> <regexp over callee names>: every call of a matching function that returns a
			// non-nil error (last result) sets the boolean ghost
			g, pat := splitWord(rest)
			sp.errorGhosts = append(sp.errorGhosts, ErrorGhost{Ghost: g, Pattern: strings.TrimSpace(pat)})
			cur, lastClause = nil, nil
		case "const-global":
			// const-global Name: a package-level variable that is never reassigned after initialisation
			for _, n := range strings.Split(rest, ",") {
				if n = strings.TrimSpace(n); n != "" {
					sp.constGlobals[pkg+"."+n] = true
				}
			}
			cur, lastClause = nil, nil
		case "noinline":
			for _, n := range strings.Split(rest, ",") {
				if n = strings.TrimSpace(n); n != "" {
					sp.noInline[canonFuncKey(pkg, n)] = true
				}
			}
			cur, lastClause = nil, nil
		case "instantiate":
			if cur == nil {
				return errf("instantiate outside a contract")
			}
			cur.Insts = append(cur.Insts, Clause{Text: rest})
			lastClause = &cur.Insts[len(cur.Insts)-1]
			lastKind = "clause"
		case "requires", "ensures", "ensures-each-return", "ghost-ensures", "assume-entry":
			if cur == nil {
				return errf("%s outside a contract", word)
			}
			label, text := splitLabel(rest)
			cl := Clause{Label: label, Text: text}
			switch word {
			case "requires":
				cur.Requires = append(cur.Requires, cl)
				lastClause = &cur.Requires[len(cur.Requires)-1]
			case "ensures":
				cur.Ensures = append(cur.Ensures, cl)
				lastClause = &cur.Ensures[len(cur.Ensures)-1]
			case "ensures-each-return":
				cur.EachRet = append(cur.EachRet, cl)
				lastClause = &cur.EachRet[len(cur.EachRet)-1]
			case "ghost-ensures":
				cur.GhostEns = append(cur.GhostEns, cl)
				lastClause = &cur.GhostEns[len(cur.GhostEns)-1]
			case "assume-entry":
				cur.Entry = append(cur.Entry, cl)
				lastClause = &cur.Entry[len(cur.Entry)-1]
			}
			lastKind = "clause"
			if p := propOf(label); p != "" {
				for _, q := range strings.Split(p, "+") {
					cur.Props[q] = true
				}
			}
		case "loop":
			if cur == nil {
				return errf("loop outside a contract")
			}
			ns, r2 := splitWord(rest)
			n, err := strconv.Atoi(strings.TrimSuffix(ns, ":"))
			if err != nil {
				return errf("bad loop ordinal %q", ns)
			}
			w2, r3 := splitWord(r2)
			if !strings.HasPrefix(w2, "invariant") {
				return errf("expected invariant")
			}
			label, text := splitLabel(strings.TrimPrefix(w2, "invariant") + " " + r3)
			ls := cur.Loops[n]
			if ls == nil {
				ls = &LoopSpec{}
				cur.Loops[n] = ls
			}
			ls.Invariants = append(ls.Invariants, Clause{Label: label, Text: text})
			lastClause = &ls.Invariants[len(ls.Invariants)-1]
			lastKind = "clause"
			if p := propOf(label); p != "" {
				for _, q := range strings.Split(p, "+") {
					cur.Props[q] = true
				}
			}
		case "assert", "mark":
			// assert[label] at "source text": expr
			// mark[name] at "source text": expr   (no obligation: records that the site was reached with expr true; read by marked(name))
			if cur == nil {
				return errf("assert outside a contract")
			}
			label, r2 := splitLabel(rest)
			r2 = strings.TrimSpace(r2)
			if !strings.HasPrefix(r2, "at ") {
				return errf("expected: assert[label] at \"site\": expr")
			}
			r2 = strings.TrimSpace(r2[3:])
			if !strings.HasPrefix(r2, "\"") {
				return errf("site must be quoted")
			}
			end := -1
			for i := 1; i+1 < len(r2); i++ {
				if r2[i] == '\\' {
					i++
					continue
				}
				if r2[i] == '"' && r2[i+1] == ':' {
					end = i - 1
					break
				}
			}
			if end < 0 {
				return errf("site must be followed by a colon")
			}
			sa := &SiteAssert{Label: label, Site: strings.ReplaceAll(r2[1:1+end], "\\\"", "\""), Text: strings.TrimSpace(r2[end+3:]), Mark: word == "mark"}
			cur.Sites = append(cur.Sites, sa)
			lastClause = nil
			lastSite = sa
			lastKind = "site"
			if p := propOf(label); p != "" {
				for _, q := range strings.Split(p, "+") {
					cur.Props[q] = true
				}
			}
		case "modifies":
			if cur == nil {
				return errf("modifies outside a contract")
			}
			cur.HasMods = true
			for _, it := range splitTop(rest, ',') {
				if it = strings.TrimSpace(it); it != "" && it != "nothing" {
					cur.Modifies = append(cur.Modifies, it)
				}
			}
			lastClause = nil
		case "also-modifies":
			if cur == nil {
				return errf("also-modifies outside a contract")
			}
			for _, it := range splitTop(rest, ',') {
				if it = strings.TrimSpace(it); it != "" {
					cur.AlsoMods = append(cur.AlsoMods, it)
				}
			}
		case "trusted":
			if cur == nil {
				return errf("trusted outside a contract")
			}
			cur.Trusted = true
		case "pure-effects":
			if cur == nil {
				return errf("pure-effects outside a contract")
			}
			cur.Pure = true
			cur.HasMods = true
		case "inline-ok":
			cur.InlineOK = true
		case "|":
			// continuation
			if lastKind == "site" && lastSite != nil {
				lastSite.Text += " " + rest
			} else if lastKind == "clause" && lastClause != nil {
				lastClause.Text += " " + rest
			} else if strings.HasPrefix(lastKind, "define:") {
				d := sp.defines[strings.TrimPrefix(lastKind, "define:")]
				d.Text += " " + rest
			} else {
				return errf("continuation with nothing to continue")
			}
		default:
			return errf("unknown contract keyword %q", word)
		}
	}
	return nil
}

// canonFuncKey: "notAfter" -> "core.notAfter"; "(*IndexedState).add" -> "(*core.IndexedState).add"; "(AndQuery).Exec" -> "(core.AndQuery).Exec"
func canonFuncKey(pkg, name string) string {
	switch {
	case strings.HasPrefix(name, "(*"):
		return "(*" + pkg + "." + name[2:]
	case strings.HasPrefix(name, "("):
		return "(" + pkg + "." + name[1:]
	}
	return pkg + "." + name
}

func propOf(label string) string {
	if i := strings.Index(label, "."); i > 0 {
		return label[:i]
	}
	return ""
}

func splitWord(s string) (string, string) {
	s = strings.TrimSpace(s)
	// a leading "requires[label]" keeps the label with the rest
	for i, c := range s {
		if c == ' ' || c == '\t' {
			return s[:i], strings.TrimSpace(s[i+1:])
		}
		if c == '[' {
			return s[:i], s[i:]
		}
	}
	return s, ""
}

func splitLabel(s string) (string, string) {
	s = strings.TrimSpace(s)
	if strings.HasPrefix(s, "[") {
		if j := strings.Index(s, "]"); j > 0 {
			return s[1:j], strings.TrimSpace(s[j+1:])
		}
	}
	return "", s
}

// splitTop splits on sep at nesting depth 0.
func splitTop(s string, sep byte) []string {
	var out []string
	depth := 0
	start := 0
	inStr := false
	for i := 0; i < len(s); i++ {
		c := s[i]
		if inStr {
			if c == '\\' {
				i++
			} else if c == '"' {
				inStr = false
			}
			continue
		}
		switch c {
		case '"':
			inStr = true
		case '(', '[', '{':
			depth++
		case ')', ']', '}':
			depth--
		default:
			if c == sep && depth == 0 {
				out = append(out, s[start:i])
				start = i + 1
			}
		}
	}
	out = append(out, s[start:])
	return out
}

// xformImplies rewrites `a ==> b` and `a <==> b` into implies(a,b) / iff(a,b) so that go/parser accepts the text.
func xformImplies(s string) string {
	// first transform inside every bracketed group
	var b strings.Builder
	depth := 0
	start := -1
	inStr := false
	for i := 0; i < len(s); i++ {
		c := s[i]
		if inStr {
			if depth == 0 {
				b.WriteByte(c)
			}
			if c == '\\' && i+1 < len(s) {
				i++
				if depth == 0 {
					b.WriteByte(s[i])
				}
			} else if c == '"' {
				inStr = false
			}
			continue
		}
		switch c {
		case '"':
			inStr = true
			if depth == 0 {
				b.WriteByte(c)
			}
		case '(', '[':
			if depth == 0 {
				start = i
			}
			depth++
		case ')', ']':
			depth--
			if depth == 0 {
				inner := s[start+1 : i]
				parts := splitTop(inner, ',')
				for j := range parts {
					parts[j] = xformImplies(parts[j])
				}
				b.WriteByte(s[start])
				b.WriteString(strings.Join(parts, ","))
				b.WriteByte(c)
			}
		default:
			if depth == 0 {
				b.WriteByte(c)
			}
		}
	}
	t := b.String()
	// now top level: <==> binds loosest, then ==> (right assoc)
	if parts := splitOp(t, "<==>"); len(parts) > 1 {
		cur := xformImplies(parts[len(parts)-1])
		for i := len(parts) - 2; i >= 0; i-- {
			cur = "iff(" + xformImplies(parts[i]) + ", " + cur + ")"
		}
		return cur
	}
	if parts := splitOp(t, "==>"); len(parts) > 1 {
		cur := parts[len(parts)-1]
		for i := len(parts) - 2; i >= 0; i-- {
			cur = "implies(" + parts[i] + ", " + cur + ")"
		}
		return cur
	}
	return t
}

func splitOp(s, op string) []string {
	var out []string
	depth := 0
	start := 0
	inStr := false
	for i := 0; i < len(s); i++ {
		c := s[i]
		if inStr {
			if c == '\\' {
				i++
			} else if c == '"' {
				inStr = false
			}
			continue
		}
		switch c {
		case '"':
			inStr = true
		case '(', '[':
			depth++
		case ')', ']':
			depth--
		default:
			if depth == 0 && strings.HasPrefix(s[i:], op) {
				if op == "==>" && i > 0 && s[i-1] == '<' {
					continue
				}
				out = append(out, s[start:i])
				start = i + len(op)
				i += len(op) - 1
			}
		}
	}
	out = append(out, s[start:])
	return out
}

func parseSpecExpr(text string) (ast.Expr, error) {
	t := xformImplies(text)
	e, err := parser.ParseExprFrom(token.NewFileSet(), "", t, 0)
	if err != nil {
		return nil, fmt.Errorf("cannot parse %q (as %q): %v", text, t, err)
	}
	return e, nil
}

// resolveExprs parses all clause texts.
func (sp *Specs) resolveExprs() error {
	for _, k := range sortedKeys(sp.contracts) {
		c := sp.contracts[k]
		fix := func(cls []Clause) error {
			for i := range cls {
				e, err := parseSpecExpr(cls[i].Text)
				if err != nil {
					return fmt.Errorf("%s: %v", c.Key, err)
				}
				cls[i].Expr = e
			}
			return nil
		}
		for _, cls := range [][]Clause{c.Requires, c.Ensures, c.EachRet, c.GhostEns, c.Entry, c.Insts} {
			if err := fix(cls); err != nil {
				return err
			}
		}
		for _, ls := range c.Loops {
			if err := fix(ls.Invariants); err != nil {
				return err
			}
		}
		for _, sa := range c.Sites {
			e, err := parseSpecExpr(sa.Text)
			if err != nil {
				return fmt.Errorf("%s: %v", c.Key, err)
			}
			sa.Expr = e
		}
	}
	for _, k := range sortedKeys(sp.defines) {
		d := sp.defines[k]
		e, err := parseSpecExpr(d.Text)
		if err != nil {
			return fmt.Errorf("define %s: %v", d.Name, err)
		}
		d.Body = e
	}
	return nil
}
