package main

import (
	"fmt"
	"go/token"
	"go/types"
	"os"
	"sort"
	"strings"

	"golang.org/x/tools/go/packages"
	"golang.org/x/tools/go/ssa"
	"golang.org/x/tools/go/ssa/ssautil"
)

// Program is the SSA of /repo's current working tree (built on every run; nothing cached).
type Program struct {
	Fset  *token.FileSet
	Pkgs  []*packages.Package
	Prog  *ssa.Program
	SSA   map[string]*ssa.Package // by import path
	Funcs map[string]*ssa.Function
	// all functions with bodies in rulio packages (incl. anonymous)
	All []*ssa.Function
}

const modPath = "github.com/Comcast/rulio"

var repoDir = "/repo"

var rulioPkgs = []string{"./core", "./cron", "./sys", "./service", "./crolt", "./storage/bolt"}

func loadProgram() (*Program, error) {
	if d := os.Getenv("GOVC_REPO"); d != "" {
		repoDir = d
	}
	cfg := &packages.Config{
		Mode:       packages.LoadAllSyntax,
		Dir:        repoDir,
		BuildFlags: []string{"-tags", "verif"},
		Env: append(os.Environ(), "GOFLAGS=-mod=mod", "GOPROXY=off", "GOSUMDB=off",
			"GOTOOLCHAIN=local", "CGO_ENABLED=0"),
	}
	pkgs, err := packages.Load(cfg, rulioPkgs...)
	if err != nil {
		return nil, err
	}
	nerr := 0
	for _, p := range pkgs {
		for _, e := range p.Errors {
			fmt.Fprintln(os.Stderr, "load error:", e)
			nerr++
		}
	}
	if nerr > 0 {
		return nil, fmt.Errorf("%d package load errors", nerr)
	}
	prog, spkgs := ssautil.AllPackages(pkgs, ssa.InstantiateGenerics|ssa.GlobalDebug)
	prog.Build()
	P := &Program{Fset: pkgs[0].Fset, Pkgs: pkgs, Prog: prog, SSA: map[string]*ssa.Package{}, Funcs: map[string]*ssa.Function{}}
	for i, sp := range spkgs {
		if sp != nil {
			P.SSA[pkgs[i].PkgPath] = sp
		}
	}
	for fn := range ssautil.AllFunctions(prog) {
		if fn.Blocks == nil {
			continue
		}
		if fn.Pkg == nil && fn.Parent() == nil {
			continue
		}
		p := fn.Pkg
		if p == nil {
			continue
		}
		if !strings.HasPrefix(p.Pkg.Path(), modPath) {
			continue
		}
		name := funcName(fn)
		if _, dup := P.Funcs[name]; dup {
			continue
		}
		P.Funcs[name] = fn
		P.All = append(P.All, fn)
	}
	sort.Slice(P.All, func(i, j int) bool { return funcName(P.All[i]) < funcName(P.All[j]) })
	return P, nil
}

// funcName gives the stable short name used in contracts and obligation names:
// core.notAfter, core.(*IndexedState).add, core.(*Location).WorkWalk$1
func funcName(fn *ssa.Function) string {
	s := fn.String()
	s = strings.ReplaceAll(s, modPath+"/", "")
	s = strings.ReplaceAll(s, "storage/bolt", "bolt")
	return s
}

func isRulio(fn *ssa.Function) bool {
	if fn == nil {
		return false
	}
	p := fn.Pkg
	if p == nil && fn.Parent() != nil {
		p = fn.Parent().Pkg
	}
	if p == nil {
		// wrappers / synthetic
		if fn.Object() != nil && fn.Object().Pkg() != nil {
			return strings.HasPrefix(fn.Object().Pkg().Path(), modPath)
		}
		return false
	}
	return strings.HasPrefix(p.Pkg.Path(), modPath)
}

func typeStr(t types.Type) string {
	s := types.TypeString(t, func(p *types.Package) string {
		pp := p.Path()
		pp = strings.TrimPrefix(pp, modPath+"/")
		return pp
	})
	return s
}
