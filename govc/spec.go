package main

import (
	"fmt"
	"go/ast"
	"go/constant"
	"go/parser"
	"go/token"
	"go/types"
	"strconv"
	"strings"

	"golang.org/x/tools/go/ssa"
)

// tv: a translated spec value
type tv struct {
	t   Term
	typ types.Type // may be nil for spec-only values
	loc *Loc       // when the value is the content of an addressable location (struct behind a pointer)
}

type Env struct {
	ex         *Exec
	vars       map[string]tv
	st         *State // current ("post") state
	old        *State // state for old(...)
	pkg        *types.Package
	frame      *frame // for invariants: resolve locals
	depth      int
	entryAlloc Term
	paramNames map[string]bool
	inLoopInv  bool
	goal       bool
	noQuant    bool // position of mixed polarity (operand of ==, iff, condition of ite): quantifiers are refused
	neg        bool // inside an odd number of negations / implication antecedents (flips how quantifiers are treated)
	extraCands map[string][]Term
	siteBlock  *ssa.BasicBlock
	siteInstr  ssa.Instruction
	argFrame   *frame // callarg(i): the frame and instruction of the call when it lies in an inlined helper
	argInstr   ssa.Instruction
}

func (env *Env) with(st *State) *Env {
	e2 := *env
	e2.st = st
	return &e2
}

// transExpr translates a boolean/any spec expression in the context of frame f (its own parameters and results).
func (V *Verifier) transExpr(ex *Exec, f *frame, e ast.Expr, st, old *State, extra map[string]tv) (Term, error) {
	env := ex.frameEnv(f, st, old)
	for k, v := range extra {
		env.vars[k] = v
	}
	r, err := env.trans(e)
	if err != nil {
		return Term{}, err
	}
	return r.t, nil
}

func (ex *Exec) frameEnv(f *frame, st, old *State) *Env {
	env := &Env{ex: ex, vars: map[string]tv{}, st: st, old: old, frame: f}
	fn := f.fn
	if fn.Pkg != nil {
		env.pkg = fn.Pkg.Pkg
	} else if fn.Parent() != nil && fn.Parent().Pkg != nil {
		env.pkg = fn.Parent().Pkg.Pkg
	}
	env.paramNames = map[string]bool{}
	for i, p := range fn.Params {
		if i < len(f.params) {
			env.vars[p.Name()] = tv{t: f.params[i], typ: p.Type()}
			env.paramNames[p.Name()] = true
		}
	}
	for _, fv := range fn.FreeVars {
		if t, ok := f.vals[fv]; ok {
			env.vars[fv.Name()] = tv{t: t, typ: fv.Type()}
			// a variable captured by reference: the name denotes the variable's current value
			if pt, ok := fv.Type().Underlying().(*types.Pointer); ok {
				deref := false
				switch pt.Elem().Underlying().(type) {
				case *types.Struct:
				default:
					deref = true
				}
				if deref {
					l := &Loc{kind: "obj", typ: pt.Elem(), ref: t}
					if lv, ok := f.locs[fv]; ok {
						l = lv
					}
					env.vars[fv.Name()] = tv{t: ex.load(st, l), typ: pt.Elem()}
					env.vars["&"+fv.Name()] = tv{t: t, typ: fv.Type()}
				}
			}
		}
	}
	if f.results != nil {
		res := fn.Signature.Results()
		for i := 0; i < res.Len(); i++ {
			if n := res.At(i).Name(); n != "" && n != "_" {
				env.vars[n] = tv{t: f.results[i], typ: res.At(i).Type()}
			}
			env.vars[fmt.Sprintf("result%d", i)] = tv{t: f.results[i], typ: res.At(i).Type()}
		}
		if res.Len() >= 1 {
			env.vars["result"] = tv{t: f.results[0], typ: res.At(0).Type()}
		}
	}
	return env
}

func (env *Env) errf(e ast.Expr, format string, a ...interface{}) error {
	return fmt.Errorf("%s: %s", types.ExprString(e), fmt.Sprintf(format, a...))
}

func (env *Env) trans(e ast.Expr) (tv, error) {
	ex := env.ex
	_ = ex.sc
	switch x := e.(type) {
	case *ast.ParenExpr:
		return env.trans(x.X)
	case *ast.BasicLit:
		switch x.Kind {
		case token.INT:
			n, err := strconv.ParseInt(x.Value, 0, 64)
			if err != nil {
				return tv{}, err
			}
			return tv{t: intLit(n)}, nil
		case token.FLOAT:
			return tv{t: Term{x.Value, SReal}}, nil
		case token.STRING:
			s, err := strconv.Unquote(x.Value)
			if err != nil {
				return tv{}, err
			}
			return tv{t: strLit(s), typ: types.Typ[types.String]}, nil
		case token.CHAR:
			s, _ := strconv.Unquote(x.Value)
			return tv{t: intLit(int64([]rune(s)[0]))}, nil
		}
	case *ast.Ident:
		return env.ident(x)
	case *ast.UnaryExpr:
		sub := env
		if x.Op == token.NOT {
			e2 := *env
			e2.neg = !env.neg
			sub = &e2
		}
		v, err := sub.trans(x.X)
		if err != nil {
			return tv{}, err
		}
		switch x.Op {
		case token.NOT:
			return tv{t: not(v.t)}, nil
		case token.SUB:
			return tv{t: app(v.t.Sort, "-", v.t), typ: v.typ}, nil
		}
	case *ast.BinaryExpr:
		if x.Op == token.EQL || x.Op == token.NEQ {
			e2 := *env
			e2.noQuant = true
			env = &e2
		}
		a, err := env.trans(x.X)
		if err != nil {
			return tv{}, err
		}
		b, err := env.trans(x.Y)
		if err != nil {
			return tv{}, err
		}
		return env.binary(x, a, b)
	case *ast.SelectorExpr:
		// package-qualified constant or global?
		if id, ok := x.X.(*ast.Ident); ok {
			if _, isVar := env.vars[id.Name]; !isVar && env.lookupLocal(id.Name) == nil {
				if r, ok, err := env.qualified(id.Name, x.Sel.Name); ok || err != nil {
					return r, err
				}
			}
		}
		base, err := env.trans(x.X)
		if err != nil {
			return tv{}, err
		}
		return env.selectField(x, base, x.Sel.Name)
	case *ast.StarExpr:
		base, err := env.trans(x.X)
		if err != nil {
			return tv{}, err
		}
		return env.deref(x, base)
	case *ast.IndexExpr:
		base, err := env.trans(x.X)
		if err != nil {
			return tv{}, err
		}
		idx, err := env.trans(x.Index)
		if err != nil {
			return tv{}, err
		}
		return env.index(x, base, idx)
	case *ast.TypeAssertExpr:
		v, err := env.trans(x.X)
		if err != nil {
			return tv{}, err
		}
		t, err := env.typeOf(x.Type)
		if err != nil {
			return tv{}, err
		}
		if v.t.Sort != SVal {
			return tv{}, env.errf(e, "type assertion on non-interface")
		}
		if _, ok := t.Underlying().(*types.Interface); ok {
			return tv{t: v.t, typ: t}, nil
		}
		_, payload := ex.unboxAs(v.t, t)
		return tv{t: payload, typ: t}, nil
	case *ast.CallExpr:
		return env.call(x)
	}
	return tv{}, env.errf(e, "unsupported spec expression (%T)", e)
}

// localAtSite resolves a source-level local variable name at the current site through DebugRefs:
// the nearest reference to a variable of that name in this block (before the site) or in a dominating block.
func (env *Env) localAtSite(name string) (ssa.Value, bool, bool) {
	f := env.frame
	b := env.siteBlock
	first := true
	for b != nil {
		instrs := b.Instrs
		end := len(instrs)
		if first {
			for i, ins := range instrs {
				if ins == env.siteInstr {
					end = i
				}
			}
			first = false
		}
		for i := end - 1; i >= 0; i-- {
			switch x := instrs[i].(type) {
			case *ssa.DebugRef:
				if obj := x.Object(); obj != nil && obj.Name() == name {
					if _, isVar := obj.(*types.Var); isVar {
						if _, have := f.vals[x.X]; have || isConstLike(x.X) {
							// a use of an address-taken variable is a load from its cell: read the cell now
							if ld, ok := x.X.(*ssa.UnOp); ok && !x.IsAddr && ld.Op == token.MUL {
								if al, ok := ld.X.(*ssa.Alloc); ok && al.Comment == name {
									return al, true, true
								}
								if fv, ok := ld.X.(*ssa.FreeVar); ok && fv.Name() == name {
									return fv, true, true
								}
							}
							return x.X, x.IsAddr, true
						}
					}
				}
			case *ssa.Phi:
				// a merge of the variable at this block: the current value even if not referenced since
				if x.Comment == name {
					if _, have := f.vals[x]; have {
						return x, false, true
					}
				}
			}
		}
		b = b.Idom()
	}
	return nil, false, false
}

func isConstLike(v ssa.Value) bool {
	switch v.(type) {
	case *ssa.Const, *ssa.Global, *ssa.Function, *ssa.Parameter, *ssa.FreeVar:
		return true
	}
	return false
}

func (env *Env) lookupLocal(name string) ssa.Value {
	f := env.frame
	if f == nil {
		return nil
	}
	// a loop-carried variable (phi) or a local cell with that source name
	var found ssa.Value
	for _, b := range f.fn.Blocks {
		for _, ins := range b.Instrs {
			switch v := ins.(type) {
			case *ssa.Phi:
				if v.Comment == name {
					if _, ok := f.vals[v]; ok {
						found = v
					}
				}
			case *ssa.Alloc:
				if v.Comment == name {
					if _, ok := f.vals[v]; ok && found == nil {
						found = v
					}
				}
			}
		}
	}
	return found
}

func (env *Env) ident(x *ast.Ident) (tv, error) {
	ex := env.ex
	switch x.Name {
	case "true":
		return tv{t: tTrue}, nil
	case "false":
		return tv{t: tFalse}, nil
	case "nil":
		return tv{t: Term{"NIL", "NIL"}}, nil
	}
	// inside the body (site assertions, loop invariants) a name denotes the CURRENT value of the variable in scope,
	// which may be a reassigned parameter or a shadowing local; at entry / exit it denotes the parameter's entry value
	if env.frame != nil && env.siteBlock != nil {
		if _, isParam := env.paramNames[x.Name]; isParam {
			if v, isAddr, ok := env.localAtSite(x.Name); ok {
				f := env.frame
				if isAddr {
					l := f.locOf(v)
					return tv{t: ex.load(env.st, l), typ: l.typ}, nil
				}
				return tv{t: f.val(v), typ: v.Type()}, nil
			}
		}
	}
	if env.frame != nil && env.inLoopInv {
		if _, isParam := env.paramNames[x.Name]; isParam {
			if lv := env.lookupLocal(x.Name); lv != nil {
				f := env.frame
				if al, ok := lv.(*ssa.Alloc); ok {
					l := f.locOf(al)
					return tv{t: ex.load(env.st, l), typ: l.typ}, nil
				}
				return tv{t: f.vals[lv], typ: lv.Type()}, nil
			}
		}
	}
	if v, ok := env.vars[x.Name]; ok {
		return v, nil
	}
	if g, ok := ex.V.specs.ghosts[x.Name]; ok {
		sort, typ, err := env.ghostSort(g)
		if err != nil {
			return tv{}, err
		}
		return tv{t: ex.get(env.st, "G:"+g.Name, sort), typ: typ}, nil
	}
	if env.frame != nil && env.siteBlock != nil {
		if v, isAddr, ok := env.localAtSite(x.Name); ok {
			f := env.frame
			if isAddr {
				l := f.locOf(v)
				return tv{t: ex.load(env.st, l), typ: l.typ}, nil
			}
			return tv{t: f.val(v), typ: v.Type()}, nil
		}
	}
	if lv := env.lookupLocal(x.Name); lv != nil {
		f := env.frame
		if al, ok := lv.(*ssa.Alloc); ok {
			l := f.locOf(al)
			return tv{t: ex.load(env.st, l), typ: l.typ}, nil
		}
		return tv{t: f.vals[lv], typ: lv.Type()}, nil
	}
	// package-level constant / variable
	if env.pkg != nil {
		if r, ok, err := env.pkgObject(env.pkg, x.Name); ok || err != nil {
			return r, err
		}
	}
	if x.Name == "rangeindex" && env.frame != nil && env.siteBlock != nil {
		// the loop is not (no longer) a range loop: for `for i := 0; ...; i++` the hidden index of the equivalent
		// range loop is i - 1 at the header (elements 0..i-1 have been processed) and in the body
		for b := env.siteBlock; b != nil; b = b.Idom() {
			for _, ins := range b.Instrs {
				phi, ok := ins.(*ssa.Phi)
				if !ok {
					break
				}
				if isCountingPhi(phi) {
					if v, have := env.frame.vals[phi]; have {
						return tv{t: app(SInt, "-", v, intLit(1)), typ: phi.Type()}, nil
					}
				}
			}
		}
	}
	return tv{}, fmt.Errorf("unknown identifier %q", x.Name)
}

// isCountingPhi: an integer loop variable that starts at 0 and is incremented by 1 on every back edge.
func isCountingPhi(phi *ssa.Phi) bool {
	b, ok := phi.Type().Underlying().(*types.Basic)
	if !ok || b.Info()&types.IsInteger == 0 || len(phi.Edges) < 2 {
		return false
	}
	zero, incs := 0, 0
	for _, e := range phi.Edges {
		switch v := e.(type) {
		case *ssa.Const:
			if k, ok := constInt(v); ok && k == 0 {
				zero++
				continue
			}
			return false
		case *ssa.BinOp:
			if v.Op == token.ADD && v.X == phi {
				if c, ok := v.Y.(*ssa.Const); ok {
					if k, ok := constInt(c); ok && k == 1 {
						incs++
						continue
					}
				}
			}
			return false
		default:
			return false
		}
	}
	return zero == 1 && incs >= 1
}

func (env *Env) qualified(pkgName, name string) (tv, bool, error) {
	if env.pkg == nil {
		return tv{}, false, nil
	}
	for _, imp := range env.pkg.Imports() {
		if imp.Name() == pkgName {
			return env.pkgObject(imp, name)
		}
	}
	if env.pkg.Name() == pkgName {
		return env.pkgObject(env.pkg, name)
	}
	return tv{}, false, nil
}

func (env *Env) pkgObject(pkg *types.Package, name string) (tv, bool, error) {
	ex := env.ex
	obj := pkg.Scope().Lookup(name)
	switch o := obj.(type) {
	case *types.Const:
		c := ssa.NewConst(o.Val(), o.Type())
		return tv{t: ex.constTerm(c), typ: o.Type()}, true, nil
	case *types.Var:
		sp := ex.V.P.Prog.Package(pkg)
		if sp == nil {
			return tv{}, false, fmt.Errorf("no SSA package for %s", pkg.Path())
		}
		g, ok := sp.Members[name].(*ssa.Global)
		if !ok {
			return tv{}, false, nil
		}
		ref := ex.globalRef(g)
		l := &Loc{kind: "obj", typ: o.Type(), ref: ref}
		if _, isStruct := o.Type().Underlying().(*types.Struct); isStruct {
			l.root = o.Type()
			return tv{t: ex.load(env.st, l), typ: o.Type(), loc: l}, true, nil
		}
		return tv{t: ex.load(env.st, l), typ: o.Type()}, true, nil
	}
	return tv{}, false, nil
}

func (env *Env) ghostSort(g *GhostVar) (string, types.Type, error) {
	if g.Type == "ref" {
		return SInt, nil, nil // a ghost holding a reference (to a map, pointer, ...)
	}
	t, err := env.parseType(g.Type)
	if err != nil {
		return "", nil, fmt.Errorf("ghost %s: %v", g.Name, err)
	}
	if m, ok := t.Underlying().(*types.Map); ok {
		return arraySort(env.ex.sc.sortOf(m.Key()), env.ex.sc.sortOf(m.Elem())), t, nil
	}
	return env.ex.sc.sortOf(t), t, nil
}

func (env *Env) parseType(text string) (types.Type, error) {
	e, err := parser.ParseExpr(text)
	if err != nil {
		return nil, err
	}
	return env.typeOf(e)
}

// typeOf resolves a Go type expression in the contract's package scope.
func (env *Env) typeOf(e ast.Expr) (types.Type, error) {
	switch x := e.(type) {
	case *ast.Ident:
		if obj := types.Universe.Lookup(x.Name); obj != nil {
			if tn, ok := obj.(*types.TypeName); ok {
				return tn.Type(), nil
			}
		}
		if env.pkg != nil {
			if obj := env.pkg.Scope().Lookup(x.Name); obj != nil {
				if tn, ok := obj.(*types.TypeName); ok {
					return tn.Type(), nil
				}
			}
		}
		return nil, fmt.Errorf("unknown type %s", x.Name)
	case *ast.StarExpr:
		t, err := env.typeOf(x.X)
		if err != nil {
			return nil, err
		}
		return types.NewPointer(t), nil
	case *ast.ArrayType:
		t, err := env.typeOf(x.Elt)
		if err != nil {
			return nil, err
		}
		if x.Len == nil {
			return types.NewSlice(t), nil
		}
		return nil, fmt.Errorf("array types unsupported in specs")
	case *ast.MapType:
		k, err := env.typeOf(x.Key)
		if err != nil {
			return nil, err
		}
		v, err := env.typeOf(x.Value)
		if err != nil {
			return nil, err
		}
		return types.NewMap(k, v), nil
	case *ast.InterfaceType:
		if x.Methods == nil || len(x.Methods.List) == 0 {
			return types.NewInterfaceType(nil, nil), nil
		}
	case *ast.SelectorExpr:
		if id, ok := x.X.(*ast.Ident); ok && env.pkg != nil {
			for _, imp := range env.pkg.Imports() {
				if imp.Name() == id.Name {
					if obj := imp.Scope().Lookup(x.Sel.Name); obj != nil {
						if tn, ok := obj.(*types.TypeName); ok {
							return tn.Type(), nil
						}
					}
				}
			}
		}
	case *ast.ParenExpr:
		return env.typeOf(x.X)
	}
	return nil, fmt.Errorf("unsupported type expression %s", types.ExprString(e))
}

func coerceNil(a, b *tv) {
	fix := func(n *tv, other *tv) {
		if n.t.Sort != "NIL" {
			return
		}
		switch other.t.Sort {
		case SVal:
			n.t = Term{"VNil", SVal}
		case SInt:
			n.t = intLit(0)
		case SSlice:
			n.t = Term{"nilSlice", SSlice}
		}
	}
	fix(a, b)
	fix(b, a)
}

func (env *Env) binary(x *ast.BinaryExpr, a, b tv) (tv, error) {
	coerceNil(&a, &b)
	// int literal against Real
	if a.t.Sort == SReal && b.t.Sort == SInt {
		b.t = app(SReal, "to_real", b.t)
	}
	if b.t.Sort == SReal && a.t.Sort == SInt {
		a.t = app(SReal, "to_real", a.t)
	}
	s := a.t.Sort
	boolRes := func(t Term) (tv, error) { return tv{t: t}, nil }
	switch x.Op {
	case token.LAND:
		return boolRes(and(a.t, b.t))
	case token.LOR:
		return boolRes(or(a.t, b.t))
	case token.EQL, token.NEQ:
		var r Term
		if s == SSlice && (b.t.S == "nilSlice" || a.t.S == "nilSlice") {
			o := a.t
			if a.t.S == "nilSlice" {
				o = b.t
			}
			r = eq(app(SInt, "sarr", o), intLit(0))
		} else {
			if a.t.Sort != b.t.Sort {
				return tv{}, env.errf(x, "comparing %s with %s", a.t.Sort, b.t.Sort)
			}
			r = eq(a.t, b.t)
		}
		if x.Op == token.NEQ {
			r = not(r)
		}
		return boolRes(r)
	case token.LSS, token.LEQ, token.GTR, token.GEQ:
		if a.t.Sort != b.t.Sort {
			return tv{}, env.errf(x, "comparing %s with %s", a.t.Sort, b.t.Sort)
		}
		op := x.Op.String()
		if s == SStr {
			switch x.Op {
			case token.LSS:
				return boolRes(app(SBool, "str.<", a.t, b.t))
			case token.LEQ:
				return boolRes(app(SBool, "str.<=", a.t, b.t))
			case token.GTR:
				return boolRes(app(SBool, "str.<", b.t, a.t))
			default:
				return boolRes(app(SBool, "str.<=", b.t, a.t))
			}
		}
		return boolRes(app(SBool, op, a.t, b.t))
	case token.ADD:
		if s == SStr {
			return tv{t: app(SStr, "str.++", a.t, b.t), typ: a.typ}, nil
		}
		return tv{t: app(s, "+", a.t, b.t), typ: a.typ}, nil
	case token.SUB:
		return tv{t: app(s, "-", a.t, b.t), typ: a.typ}, nil
	case token.MUL:
		return tv{t: app(s, "*", a.t, b.t), typ: a.typ}, nil
	case token.QUO:
		if s == SReal {
			return tv{t: app(s, "/", a.t, b.t), typ: a.typ}, nil
		}
		return tv{t: goDiv(a.t, b.t), typ: a.typ}, nil
	case token.REM:
		return tv{t: app(SInt, "-", a.t, app(SInt, "*", b.t, goDiv(a.t, b.t))), typ: a.typ}, nil
	}
	return tv{}, env.errf(x, "unsupported operator %s", x.Op)
}

func (env *Env) selectField(e ast.Expr, base tv, name string) (tv, error) {
	ex := env.ex
	if base.typ == nil {
		return tv{}, env.errf(e, "field selection on untyped spec value")
	}
	t := base.typ
	var l *Loc
	if p, ok := t.Underlying().(*types.Pointer); ok {
		l = &Loc{kind: "obj", typ: p.Elem(), ref: base.t, root: p.Elem()}
		t = p.Elem()
	} else if base.loc != nil {
		l = base.loc
	}
	st, ok := t.Underlying().(*types.Struct)
	if !ok {
		return tv{}, env.errf(e, "field selection on non-struct %s", typeStr(t))
	}
	// find field, searching embedded structs one level
	idx := -1
	for i := 0; i < st.NumFields(); i++ {
		if st.Field(i).Name() == name {
			idx = i
		}
	}
	if idx < 0 {
		for i := 0; i < st.NumFields(); i++ {
			if st.Field(i).Embedded() {
				var inner tv
				var err error
				if l != nil {
					fl := ex.fieldLoc(l, i)
					inner = tv{typ: fl.typ, loc: fl}
					if _, isS := fl.typ.Underlying().(*types.Struct); !isS {
						inner.t = ex.load(env.st, fl)
					}
				} else {
					ss := ex.sc.structOf(t)
					inner = tv{t: app(ss.sorts[i], ss.fields[i], base.t), typ: st.Field(i).Type()}
				}
				r, err := env.selectField(e, inner, name)
				if err == nil {
					return r, nil
				}
			}
		}
		return tv{}, env.errf(e, "no field %s in %s", name, typeStr(t))
	}
	ft := st.Field(idx).Type()
	if l != nil {
		fl := ex.fieldLoc(l, idx)
		if _, isS := ft.Underlying().(*types.Struct); isS {
			return tv{t: ex.load(env.st, fl), typ: ft, loc: fl}, nil
		}
		return tv{t: ex.load(env.st, fl), typ: ft}, nil
	}
	ss := ex.sc.structOf(t)
	return tv{t: app(ss.sorts[idx], ss.fields[idx], base.t), typ: ft}, nil
}

func (env *Env) deref(e ast.Expr, base tv) (tv, error) {
	p, ok := base.typ.Underlying().(*types.Pointer)
	if !ok {
		return tv{}, env.errf(e, "deref of non-pointer")
	}
	l := &Loc{kind: "obj", typ: p.Elem(), ref: base.t}
	if _, isS := p.Elem().Underlying().(*types.Struct); isS {
		l.root = p.Elem()
	}
	return tv{t: env.ex.load(env.st, l), typ: p.Elem(), loc: l}, nil
}

func (env *Env) index(e ast.Expr, base, idx tv) (tv, error) {
	ex := env.ex
	sc := ex.sc
	if base.typ == nil {
		// ghost map: array sort
		if strings.HasPrefix(base.t.Sort, "(Array ") {
			return tv{t: sel(base.t, idx.t)}, nil
		}
		return tv{}, env.errf(e, "index of untyped value")
	}
	switch u := base.typ.Underlying().(type) {
	case *types.Map:
		if strings.HasPrefix(base.t.Sort, "(Array ") { // ghost map
			return tv{t: sel(base.t, idx.t), typ: u.Elem()}, nil
		}
		ks, vs := sc.sortOf(u.Key()), sc.sortOf(u.Elem())
		mvv := ex.get(env.st, compMapVal(u), arraySort(SInt, arraySort(ks, vs)))
		md := ex.get(env.st, compMapDom(u), arraySort(SInt, arraySort(ks, SBool)))
		has := and(not(eq(base.t, intLit(0))), sel(sel(md, base.t), idx.t))
		val := ite(has, sel(sel(mvv, base.t), idx.t), sc.zero(u.Elem()))
		if isPointerLike(u.Elem()) {
			// heap well-formedness: a reference stored in the heap was allocated before that heap state
			sc.axiom(app(SBool, "<", val, ex.get(env.st, compAlloc, SInt)))
		}
		return tv{t: val, typ: u.Elem()}, nil
	case *types.Slice:
		es := sc.sortOf(u.Elem())
		arr := ex.get(env.st, compElem(u.Elem()), arraySort(SInt, arraySort(SInt, es)))
		return tv{t: sel(sel(arr, app(SInt, "sarr", base.t)), app(SInt, "+", app(SInt, "soff", base.t), idx.t)), typ: u.Elem()}, nil
	case *types.Basic:
		if u.Info()&types.IsString != 0 {
			return tv{t: app(SInt, "str.to_code", app(SStr, "str.at", base.t, idx.t)), typ: types.Typ[types.Uint8]}, nil
		}
	}
	return tv{}, env.errf(e, "unsupported index base %s", typeStr(base.typ))
}

func (env *Env) call(x *ast.CallExpr) (tv, error) {
	ex := env.ex
	sc := ex.sc
	id, ok := x.Fun.(*ast.Ident)
	if !ok {
		// conversion like int64(x) with selector type? unsupported
		return tv{}, env.errf(x, "unsupported call")
	}
	argv := func(i int) (tv, error) {
		if i >= len(x.Args) {
			return tv{}, env.errf(x, "missing argument %d", i)
		}
		return env.trans(x.Args[i])
	}
	switch id.Name {
	case "forall":
		// forall(k, Type, body): positive positions only. Goal: skolemised. Assumption: instantiated at the
		// candidate terms of that sort (call arguments, parameters of the function under verification, goal skolems).
		if len(x.Args) != 3 {
			return tv{}, env.errf(x, "forall(var, Type, body)")
		}
		if env.noQuant {
			return tv{}, env.errf(x, "forall in a position of mixed polarity (operand of ==, iff or condition of ite)")
		}
		vid, ok := x.Args[0].(*ast.Ident)
		if !ok {
			return tv{}, env.errf(x, "forall: first argument must be an identifier")
		}
		t, err := env.typeOf(x.Args[1])
		if err != nil {
			return tv{}, err
		}
		sort := sc.sortOf(t)
		bind := func(v Term) (tv, error) {
			e2 := *env
			e2.vars = map[string]tv{}
			for k, val := range env.vars {
				e2.vars[k] = val
			}
			e2.vars[vid.Name] = tv{t: v, typ: t}
			return e2.trans(x.Args[2])
		}
		if env.goal && !env.neg {
			sk := ex.skolemFor(types.ExprString(x), sort, t)
			return bind(sk)
		}
		if !env.goal && env.neg {
			// a universally quantified ANTECEDENT of an assumption: (forall k. A(k)) ==> P is  exists k. !A(k)  or P ;
			// the witness is a fresh constant of this occurrence
			return bind(sc.freshConst("wit", sort))
		}
		// assumption in positive position, or antecedent of a goal: instantiate at the candidate terms
		var conj []Term
		class := candClass(sort, t)
		cands := ex.instCands[class]
		if class == "Int#idx" {
			// index-like variables: also 0 and the neighbours of the goal's skolem constants (shifted positions after insert / remove)
			cands = append([]Term{intLit(0)}, cands...)
			for _, c := range ex.instCands[class] {
				if strings.HasPrefix(c.S, "sk!") || strings.HasPrefix(c.S, "|sk") {
					cands = append(cands, app(SInt, "+", c, intLit(1)), app(SInt, "-", c, intLit(1)))
				}
			}
		}
		for _, c := range cands {
			r, err := bind(c)
			if err != nil {
				return tv{}, err
			}
			conj = append(conj, r.t)
		}
		for _, c := range env.extraCands[class] {
			r, err := bind(c)
			if err != nil {
				return tv{}, err
			}
			conj = append(conj, r.t)
		}
		// marked conjunction of instances (filtered per goal at query time, see filterInstances)
		sc.declare("@q", SBool)
		if !sc.qMarked {
			sc.qMarked = true
			sc.axiom(Term{"|@q|", SBool})
		}
		parts := []string{}
		for _, c := range conj {
			parts = append(parts, c.S)
		}
		return tv{t: Term{instMarker + strings.Join(parts, " ") + " true)", SBool}}, nil
	case "upd":
		// upd(m, k, v): ghost map update
		m, err := argv(0)
		if err != nil {
			return tv{}, err
		}
		k, err := argv(1)
		if err != nil {
			return tv{}, err
		}
		v, err := argv(2)
		if err != nil {
			return tv{}, err
		}
		return tv{t: store(m.t, k.t, v.t), typ: m.typ}, nil
	case "marked":
		// marked(name): the site of mark[name] of this function was reached with its expression true
		id, ok := x.Args[0].(*ast.Ident)
		if !ok {
			return tv{}, env.errf(x, "marked(name) needs the name of a mark of this function")
		}
		if env.frame == nil {
			// the contract is being used at a call site: a mark is internal to the callee, the caller knows nothing of it
			return tv{t: ex.sc.freshConst("marked", SBool)}, nil
		}
		found := false
		if env.frame.contract != nil {
			for _, sa := range env.frame.contract.Sites {
				if sa.Mark && sa.Label == id.Name {
					found = true
				}
			}
		}
		if !found {
			return tv{}, env.errf(x, "no mark[%s] in this function's contract", id.Name)
		}
		return tv{t: ex.get(env.st, markComp(env.frame.fn, id.Name), SBool)}, nil
	case "callarg":
		// callarg(i): the i-th argument (receiver not counted) of the call a site assertion is attached before
		argIns, argFr := env.siteInstr, env.frame
		if env.argFrame != nil {
			argIns, argFr = env.argInstr, env.argFrame
		}
		ci, ok := argIns.(ssa.CallInstruction)
		if !ok || argFr == nil {
			return tv{}, env.errf(x, "callarg needs a call site")
		}
		c := ci.Common()
		i := -1
		switch a := x.Args[0].(type) {
		case *ast.BasicLit:
			// callarg(i): by position (receiver not counted)
			i, _ = strconv.Atoi(a.Value)
			if !c.IsInvoke() && c.Signature().Recv() != nil {
				i++
			}
		case *ast.Ident:
			// callarg(name): the argument passed for the callee's parameter of that name (independent of the order of
			// the parameters; a parameter renamed since the contracts were written is found under its new name)
			callee := c.StaticCallee()
			if callee == nil {
				return tv{}, env.errf(x, "callarg(%s) needs a statically known callee", a.Name)
			}
			want := a.Name
			if nw, ok := shapeRenames[funcName(callee)][want]; ok {
				want = nw
			}
			for k, p := range callee.Params {
				if p.Name() == want {
					i = k
				}
			}
			if i < 0 {
				return tv{}, env.errf(x, "%s has no parameter %s", funcName(callee), a.Name)
			}
		default:
			return tv{}, env.errf(x, "callarg needs an index or a parameter name")
		}
		if i < 0 || i >= len(c.Args) {
			return tv{}, env.errf(x, "the call has no such argument")
		}
		return tv{t: argFr.val(c.Args[i]), typ: c.Args[i].Type()}, nil
	case "old":
		e2 := env.with(env.old)
		e2.siteBlock = nil // parameter names denote their entry values inside old(...)
		e2.inLoopInv = false
		return e2.trans(x.Args[0])
	case "implies":
		eneg := *env
		eneg.neg = !env.neg
		a, err := eneg.trans(x.Args[0])
		if err != nil {
			return tv{}, err
		}
		b, err := argv(1)
		if err != nil {
			return tv{}, err
		}
		return tv{t: implies(a.t, b.t)}, nil
	case "iff":
		{
			e2 := *env
			e2.noQuant = true
			env = &e2
		}
		a, err := argv(0)
		if err != nil {
			return tv{}, err
		}
		b, err := argv(1)
		if err != nil {
			return tv{}, err
		}
		return tv{t: eq(a.t, b.t)}, nil
	case "ite":
		c, err := argv(0)
		if err != nil {
			return tv{}, err
		}
		a, err := argv(1)
		if err != nil {
			return tv{}, err
		}
		b, err := argv(2)
		if err != nil {
			return tv{}, err
		}
		coerceNil(&a, &b)
		return tv{t: ite(c.t, a.t, b.t), typ: a.typ}, nil
	case "has":
		m, err := argv(0)
		if err != nil {
			return tv{}, err
		}
		k, err := argv(1)
		if err != nil {
			return tv{}, err
		}
		if strings.HasPrefix(m.t.Sort, "(Array ") {
			return tv{t: sel(m.t, k.t)}, nil
		}
		mt, ok := m.typ.Underlying().(*types.Map)
		if !ok {
			return tv{}, env.errf(x, "has on non-map")
		}
		ks := sc.sortOf(mt.Key())
		md := ex.get(env.st, compMapDom(mt), arraySort(SInt, arraySort(ks, SBool)))
		hasT := and(not(eq(m.t, intLit(0))), sel(sel(md, m.t), k.t))
		// a map holding a key has length >= 1 (fact about every concrete map state)
		ml := ex.get(env.st, compMapLen(mt), arraySort(SInt, SInt))
		sc.axiom(implies(hasT, app(SBool, ">=", sel(ml, m.t), intLit(1))))
		return tv{t: hasT}, nil
	case "len":
		a, err := argv(0)
		if err != nil {
			return tv{}, err
		}
		switch a.t.Sort {
		case SSlice:
			// lengths of well-formed slices are non-negative (standing fact about Go values)
			ex.sc.axiom(app(SBool, ">=", app(SInt, "slen", a.t), intLit(0)))
			return tv{t: app(SInt, "slen", a.t), typ: types.Typ[types.Int]}, nil
		case SStr:
			return tv{t: app(SInt, "str.len", a.t), typ: types.Typ[types.Int]}, nil
		case SInt:
			if mt, ok := a.typ.Underlying().(*types.Map); ok {
				ml := ex.get(env.st, compMapLen(mt), arraySort(SInt, SInt))
				return tv{t: ite(eq(a.t, intLit(0)), intLit(0), sel(ml, a.t)), typ: types.Typ[types.Int]}, nil
			}
		}
		return tv{}, env.errf(x, "len of %s", a.t.Sort)
	case "is":
		// is(v, T): dynamic type test
		v, err := argv(0)
		if err != nil {
			return tv{}, err
		}
		t, err := env.typeOf(x.Args[1])
		if err != nil {
			return tv{}, err
		}
		cond, _ := ex.unboxAs(v.t, t)
		return tv{t: cond}, nil
	case "isNil":
		v, err := argv(0)
		if err != nil {
			return tv{}, err
		}
		n := tv{t: Term{"NIL", "NIL"}}
		coerceNil(&n, &v)
		return tv{t: eq(v.t, n.t)}, nil
	case "trunc":
		v, err := argv(0)
		if err != nil {
			return tv{}, err
		}
		return tv{t: ite(app(SBool, ">=", v.t, Term{"0.0", SReal}), app(SInt, "to_int", v.t), app(SInt, "-", app(SInt, "to_int", app(SReal, "-", v.t)))), typ: types.Typ[types.Int64]}, nil
	case "real":
		v, err := argv(0)
		if err != nil {
			return tv{}, err
		}
		return tv{t: app(SReal, "to_real", v.t)}, nil
	case "floordiv":
		a, err := argv(0)
		if err != nil {
			return tv{}, err
		}
		b, err := argv(1)
		if err != nil {
			return tv{}, err
		}
		return tv{t: app(SInt, "div", a.t, b.t)}, nil
	case "acquired":
		l, err := env.lockLoc(x.Args[0])
		if err != nil {
			return tv{}, err
		}
		ac := "LA:" + strings.TrimPrefix(ex.lockComp(l), "LK:")
		return tv{t: sel(ex.get(env.st, ac, arraySort(SInt, SInt)), l.ref)}, nil
	case "holdsSome":
		// holdsSome(pkg.Type.field): this goroutine holds at least one mutex of that kind (decided in lock mode only,
		// where the per-kind counters are kept; outside it the clause says nothing)
		kind := types.ExprString(x.Args[0])
		if !ex.lockMode {
			return tv{t: tTrue}, nil
		}
		if ex.inRequires {
			ex.lkRequired["LK:"+kind] = true
		}
		return tv{t: app(SBool, ">=", ex.heldCount(env.st, "LH:"+kind), intLit(1))}, nil
	case "held", "heldW", "unheld", "lockstate":
		// held(x.RWMutex): lock state of the mutex at that location
		l, err := env.lockLoc(x.Args[0])
		if err != nil {
			return tv{}, err
		}
		comp := ex.lockComp(l)
		lk := ex.get(env.st, comp, arraySort(SInt, SInt))
		cur := sel(lk, l.ref)
		switch id.Name {
		case "held":
			return tv{t: app(SBool, ">=", cur, intLit(1))}, nil
		case "heldW":
			return tv{t: eq(cur, intLit(2))}, nil
		case "unheld":
			return tv{t: eq(cur, intLit(0))}, nil
		}
		return tv{t: cur}, nil
	case "calls":
		v, err := argv(0)
		if err != nil {
			return tv{}, err
		}
		c := ex.get(env.st, callsComp(v.typ), arraySort(SInt, SInt))
		return tv{t: sel(c, v.t)}, nil
	case "fresh":
		v, err := argv(0)
		if err != nil {
			return tv{}, err
		}
		ex.regComp(compAlloc, SInt)
		base := ex.get(env.old, compAlloc, SInt)
		if env.entryAlloc.S != "" {
			base = env.entryAlloc // allocated since the entry of the activation under verification
		}
		return tv{t: app(SBool, ">=", v.t, base)}, nil
	case "str":
		// str(b): the string spelled by a byte slice
		v, err := argv(0)
		if err != nil {
			return tv{}, err
		}
		if v.t.Sort != SSlice {
			return tv{}, env.errf(x, "str of non-slice")
		}
		el := v.typ.Underlying().(*types.Slice).Elem()
		arr := ex.get(env.st, compElem(el), arraySort(SInt, arraySort(SInt, SInt)))
		fn := sc.declareFun("strOfBytes", []string{arraySort(SInt, SInt), SInt, SInt}, SStr)
		return tv{t: app(SStr, fn, sel(arr, app(SInt, "sarr", v.t)), app(SInt, "soff", v.t), app(SInt, "slen", v.t)), typ: types.Typ[types.String]}, nil
	case "arr":
		// arr(s): the backing array of a slice (for fresh(arr(s)))
		v, err := argv(0)
		if err != nil {
			return tv{}, err
		}
		if v.t.Sort != SSlice {
			return tv{}, env.errf(x, "arr of non-slice")
		}
		return tv{t: app(SInt, "sarr", v.t)}, nil
	case "dyncalls":
		return tv{t: ex.get(env.st, "G:dyncalls", SInt)}, nil
	case "clock":
		return tv{t: ex.get(env.st, "G:clock", SInt)}, nil
	case "nanos":
		v, err := argv(0)
		if err != nil {
			return tv{}, err
		}
		fn := sc.declareFun("time.nanos", []string{v.t.Sort}, SInt)
		return tv{t: app(SInt, fn, v.t), typ: types.Typ[types.Int64]}, nil
	case "prefix":
		a, err := argv(0)
		if err != nil {
			return tv{}, err
		}
		b, err := argv(1)
		if err != nil {
			return tv{}, err
		}
		return tv{t: app(SBool, "str.prefixof", a.t, b.t)}, nil
	case "suffix":
		a, err := argv(0)
		if err != nil {
			return tv{}, err
		}
		b, err := argv(1)
		if err != nil {
			return tv{}, err
		}
		return tv{t: app(SBool, "str.suffixof", a.t, b.t)}, nil
	case "substr":
		a, err := argv(0)
		if err != nil {
			return tv{}, err
		}
		b, err := argv(1)
		if err != nil {
			return tv{}, err
		}
		c, err := argv(2)
		if err != nil {
			return tv{}, err
		}
		return tv{t: app(SStr, "str.substr", a.t, b.t, c.t), typ: types.Typ[types.String]}, nil
	case "box":
		// box(v): the interface value holding v (typed)
		v, err := argv(0)
		if err != nil {
			return tv{}, err
		}
		if v.typ == nil {
			return tv{}, env.errf(x, "box of untyped value")
		}
		return tv{t: ex.box(env.st, v.t, v.typ), typ: types.NewInterfaceType(nil, nil)}, nil
	case "boxAs":
		// boxAs(v, T)
		v, err := argv(0)
		if err != nil {
			return tv{}, err
		}
		t, err := env.typeOf(x.Args[1])
		if err != nil {
			return tv{}, err
		}
		return tv{t: ex.box(env.st, v.t, t), typ: types.NewInterfaceType(nil, nil)}, nil
	}
	// conversions: int64(x), float64(x), string(x)
	if obj := types.Universe.Lookup(id.Name); obj != nil {
		if tn, ok := obj.(*types.TypeName); ok && len(x.Args) == 1 {
			v, err := argv(0)
			if err != nil {
				return tv{}, err
			}
			ts := sc.sortOf(tn.Type())
			switch {
			case v.t.Sort == ts:
				return tv{t: v.t, typ: tn.Type()}, nil
			case v.t.Sort == SInt && ts == SReal:
				return tv{t: app(SReal, "to_real", v.t), typ: tn.Type()}, nil
			case v.t.Sort == SReal && ts == SInt:
				return tv{t: ite(app(SBool, ">=", v.t, Term{"0.0", SReal}), app(SInt, "to_int", v.t), app(SInt, "-", app(SInt, "to_int", app(SReal, "-", v.t)))), typ: tn.Type()}, nil
			}
			return tv{}, env.errf(x, "unsupported conversion")
		}
	}
	// user macro
	if d, ok := ex.V.specs.defines[id.Name]; ok {
		if len(x.Args) != len(d.Params) {
			return tv{}, env.errf(x, "define %s expects %d arguments", d.Name, len(d.Params))
		}
		if env.depth > 20 {
			return tv{}, env.errf(x, "define expansion too deep")
		}
		e2 := *env
		e2.vars = map[string]tv{}
		for k, v := range env.vars {
			e2.vars[k] = v
		}
		for i, p := range d.Params {
			v, err := argv(i)
			if err != nil {
				return tv{}, err
			}
			e2.vars[p] = v
		}
		e2.depth = env.depth + 1
		e2.frame = nil
		return e2.trans(d.Body)
	}
	// uninterpreted spec function
	if pf, ok := ex.V.specs.pures[id.Name]; ok {
		var args []Term
		var sorts []string
		for i := range x.Args {
			v, err := argv(i)
			if err != nil {
				return tv{}, err
			}
			if i < len(pf.Params) {
				pt, err := env.specSort(pf.Params[i])
				if err != nil {
					return tv{}, err
				}
				if v.t.Sort == "NIL" {
					v.t = zeroOfSort(pt)
				}
				if pt != v.t.Sort {
					return tv{}, env.errf(x, "spec %s argument %d: sort %s, want %s", pf.Name, i, v.t.Sort, pt)
				}
			}
			args = append(args, v.t)
			sorts = append(sorts, v.t.Sort)
		}
		rs, err := env.specSort(pf.Result)
		if err != nil {
			return tv{}, err
		}
		var rt types.Type
		if t, err := env.parseType(pf.Result); err == nil {
			rt = t
		}
		fn := sc.declareFun("spec:"+pf.Name, sorts, rs)
		if len(args) == 0 {
			return tv{t: Term{fn, rs}, typ: rt}, nil
		}
		return tv{t: app(rs, fn, args...), typ: rt}, nil
	}
	return tv{}, env.errf(x, "unknown spec function %s", id.Name)
}

func (env *Env) specSort(text string) (string, error) {
	switch text {
	case "Int":
		return SInt, nil
	case "Bool":
		return SBool, nil
	case "Real":
		return SReal, nil
	case "Val":
		return SVal, nil
	}
	t, err := env.parseType(text)
	if err != nil {
		return "", err
	}
	return env.ex.sc.sortOf(t), nil
}

func (env *Env) lockLoc(e ast.Expr) (*Loc, error) {
	// expression must denote a mutex field: x.RWMutex, x.Mutex, or x (pointer to struct embedding exactly one)
	if se, ok := e.(*ast.SelectorExpr); ok {
		base, err := env.trans(se.X)
		if err != nil {
			return nil, err
		}
		p, ok := base.typ.Underlying().(*types.Pointer)
		if !ok {
			return nil, env.errf(e, "lock base must be a pointer")
		}
		st := p.Elem().Underlying().(*types.Struct)
		for i := 0; i < st.NumFields(); i++ {
			if st.Field(i).Name() == se.Sel.Name {
				return &Loc{kind: "obj", typ: st.Field(i).Type(), ref: base.t, root: p.Elem(), path: se.Sel.Name}, nil
			}
		}
		return nil, env.errf(e, "no such mutex field")
	}
	return nil, env.errf(e, "lock expression must be x.Field")
}

var _ = constant.MakeBool
