package main

import (
	"fmt"
	"go/constant"
	"go/token"
	"go/types"
	"strings"

	"golang.org/x/tools/go/ssa"
)

const maxInlineDepth = 3
const maxInlineInstrs = 400

func instrCount(fn *ssa.Function) int {
	n := 0
	for _, b := range fn.Blocks {
		n += len(b.Instrs)
	}
	return n
}

// errorGhost: after a call of a function matching an error-ghost directive, ghost := old(ghost) || err != nil.
func (ex *Exec) errorGhost(st *State, callee *ssa.Function, vals []Term) {
	if callee == nil || len(vals) == 0 || len(ex.V.specs.errorGhosts) == 0 {
		return
	}
	rs := callee.Signature.Results()
	if rs.Len() == 0 || typeStr(rs.At(rs.Len()-1).Type()) != "error" {
		return
	}
	name := funcName(callee)
	for _, eg := range ex.V.specs.errorGhosts {
		if !matchAny([]string{eg.Pattern}, name) {
			continue
		}
		g := "G:" + eg.Ghost
		old := ex.get(st, g, SBool)
		ex.set(st, g, or(old, not(eq(vals[len(vals)-1], Term{"VNil", SVal}))))
	}
}

func (ex *Exec) setResult(f *frame, res ssa.Value, vals []Term) {
	if res == nil {
		return
	}
	tt, isTuple := res.Type().(*types.Tuple)
	if isTuple {
		if tt.Len() == 0 {
			return
		}
		f.tuples[res] = vals
		return
	}
	if len(vals) == 1 {
		f.vals[res] = vals[0]
	}
}

func (ex *Exec) freshResults(f *frame, st *State, sig *types.Signature, hint string) []Term {
	var out []Term
	for i := 0; i < sig.Results().Len(); i++ {
		t := sig.Results().At(i).Type()
		c := ex.sc.freshConst(fmt.Sprintf("%s#r%d", hint, i), ex.sc.sortOf(t))
		ex.wellTyped(st, c, t)
		out = append(out, c)
	}
	return out
}

// call handles a call instruction (res may be nil for deferred calls).
func (ex *Exec) call(f *frame, st *State, instr ssa.Instruction, cc *ssa.CallCommon, res ssa.Value) {
	var args []Term
	for _, a := range cc.Args {
		args = append(args, f.val(a))
	}
	ex.callWith(f, st, instr, cc, res, args)
}

func (ex *Exec) callWith(f *frame, st *State, instr ssa.Instruction, cc *ssa.CallCommon, res ssa.Value, args []Term) {
	ex.curCall = instr
	sc := ex.sc
	hint := f.pfx + "call"
	if res != nil {
		hint = f.name(res)
	}
	pos := instr.Pos()
	if b, ok := cc.Value.(*ssa.Builtin); ok {
		ex.builtin(f, st, instr, b, cc, res, args)
		return
	}
	if ex.lockMode && len(ex.V.specs.lockOrders) > 0 && !f.inline {
		ex.lockOrderAtCall(f, st, cc, pos)
	}
	sig := cc.Signature()
	if cc.IsInvoke() {
		recv := f.val(cc.Value)
		key := "iface:" + typeStr(cc.Value.Type()) + "." + cc.Method.Name()
		if f.sweepOn() && ex.mayBeNil(f, cc.Value) {
			ex.oblige(f, st, "nilderef", ex.V.srcText(cc.Value, pos)+"."+cc.Method.Name(), "", pos, not(eq(recv, Term{"VNil", SVal})), "method call on possibly nil interface value")
		}
		if c := ex.V.contracts[key]; c != nil {
			ex.applyContract(f, st, c, nil, cc.Method.Type().(*types.Signature), recv, cc.Value.Type(), args, cc.Args, res, hint, pos)
			return
		}
		// no contract: effects = union over implementations
		ex.havocSet(st, ex.V.invokeMods(cc))
		ex.setResult(f, res, ex.freshResults(f, st, sig, hint))
		ex.note("uncontracted interface call " + key + " (havoc of implementations' inferred write sets)")
		return
	}
	callee := cc.StaticCallee()
	if callee == nil {
		if ci, ok := f.clos[cc.Value]; ok {
			callee = ci.fn
		}
	}
	if callee == nil {
		// dynamic call through a function value
		fv := f.val(cc.Value)
		if f.sweepOn() && ex.mayBeNil(f, cc.Value) {
			ex.oblige(f, st, "nilderef", "call "+ex.V.srcText(cc.Value, pos), "", pos, not(eq(fv, intLit(0))), "call of possibly nil function value")
		}
		// ghost call counter
		callsC := callsComp(cc.Value.Type())
		key := "funcval:" + funcName(f.fn) + "." + valueSrcName(cc.Value)
		if c := ex.V.contracts[key]; c != nil {
			ex.applyContract(f, st, c, nil, sig, Term{}, nil, args, cc.Args, res, hint, pos)
		} else {
			ex.havocSet(st, ex.V.dynMods(sig))
			ex.setResult(f, res, ex.freshResults(f, st, sig, hint))
			ex.note("dynamic call of function value in " + funcName(f.fn) + " (havoc of signature-compatible functions' inferred write sets)")
		}
		dyn := ex.get(st, "G:dyncalls", SInt)
		ex.set(st, "G:dyncalls", app(SInt, "+", dyn, intLit(1)))
		calls2 := ex.get(st, callsC, arraySort(SInt, SInt))
		ex.set(st, callsC, store(calls2, fv, app(SInt, "+", sel(calls2, fv), intLit(1))))
		return
	}
	name := funcName(callee)
	// a method of a dependency type with a pointer receiver dereferences its receiver (assumed of the dependency): a receiver
	// that came out of a call, a map lookup or a comma-ok assertion must be shown non-nil
	if f.sweepOn() && !isRulio(callee) && callee.Signature.Recv() != nil && len(cc.Args) > 0 {
		if _, isPtr := callee.Signature.Recv().Type().Underlying().(*types.Pointer); isPtr && ex.mayBeNil(f, cc.Args[0]) && !nilSafeReceiver[callee.String()] {
			ex.oblige(f, st, "nilderef", ex.V.srcText(cc.Args[0], pos)+"."+callee.Name(), "", pos, not(eq(args[0], intLit(0))), "method of a dependency type called on a possibly nil pointer")
		}
	}
	// receivers of static method calls on possibly nil rulio pointers are not dereferenced here; the callee does that.
	if ex.lockIntrinsic(f, st, callee, cc, pos) {
		return
	}
	if ex.intrinsic(f, st, callee, cc, res, args, hint, pos) {
		return
	}
	if c := ex.V.contracts[name]; c != nil && !(c.InlineOK && ex.canInline(callee)) {
		var recvT types.Type
		ex.applyContract(f, st, c, callee, callee.Signature, Term{}, recvT, args, cc.Args, res, hint, pos)
		return
	} else if c != nil {
		// inline the body, then apply the contract's ghost instrumentation to the inlined call
		pre := st.clone()
		ex.inline(f, st, callee, cc, args, res, hint)
		var results []Term
		if res != nil {
			if tup, ok := f.tuples[res]; ok {
				results = tup
			} else if v, ok := f.vals[res]; ok {
				results = []Term{v}
			}
		}
		ex.applyGhost(f, st, pre, c, callee, args, results)
		return
	}
	if ex.V.isPure(name) {
		ex.setResult(f, res, ex.freshResults(f, st, sig, hint))
		return
	}
	if ex.canInline(callee) {
		ex.inline(f, st, callee, cc, args, res, hint)
		return
	}
	// havoc inferred write set
	if !isRulio(callee) {
		// local cells handed to a dependency function may be written by it during this call
		ex.noRestore = map[string]bool{}
		for _, a := range cc.Args {
			var base ssa.Value = a
			if mi, ok := base.(*ssa.MakeInterface); ok {
				base = mi.X
			}
			for {
				if fa, ok := base.(*ssa.FieldAddr); ok {
					base = fa.X
					continue
				}
				if ia, ok := base.(*ssa.IndexAddr); ok {
					base = ia.X
					continue
				}
				break
			}
			if al, ok := base.(*ssa.Alloc); ok {
				ex.noRestore[f.val(al).S] = true
			}
		}
	}
	mods := ex.V.modSet(callee)
	if !isRulio(callee) {
		// pointers / maps / slices passed boxed in interface arguments (json.Unmarshal(bs, &x)) may be written too
		extra := map[string]bool{}
		for k := range mods {
			extra[k] = true
		}
		for _, a := range cc.Args {
			if mi, ok := a.(*ssa.MakeInterface); ok {
				ex.V.shallowWrites(mi.X.Type(), extra)
			}
		}
		mods = extra
	}
	ex.havocSet(st, mods)
	ex.noRestore = nil
	rs := ex.freshResults(f, st, sig, hint)
	ex.setResult(f, res, rs)
	ex.errorGhost(st, callee, rs)
	if !isRulio(callee) {
		ex.errConvention(st, sig, rs)
	}
	if isRulio(callee) {
		ex.note("uncontracted callee " + name + " (havoc of inferred write set, result unconstrained)")
	}
	_ = sc
}

func valueSrcName(v ssa.Value) string {
	switch x := v.(type) {
	case *ssa.Parameter:
		return x.Name()
	case *ssa.FreeVar:
		return x.Name()
	case *ssa.UnOp:
		if fa, ok := x.X.(*ssa.FieldAddr); ok {
			st := fa.X.Type().Underlying().(*types.Pointer).Elem().Underlying().(*types.Struct)
			return st.Field(fa.Field).Name()
		}
		if al, ok := x.X.(*ssa.Alloc); ok {
			return al.Comment
		}
		if fv, ok := x.X.(*ssa.FreeVar); ok {
			return fv.Name()
		}
	}
	return v.Name()
}

func (ex *Exec) canInline(callee *ssa.Function) bool {
	if callee.Blocks == nil || !isRulio(callee) {
		return false
	}
	if ex.depth >= maxInlineDepth {
		return false
	}
	if instrCount(callee) > maxInlineInstrs {
		return false
	}
	if ex.V.isRecursive(callee) {
		return false
	}
	if callee.Recover != nil {
		return false
	}
	if ex.V.noInline[funcName(callee)] {
		return false
	}
	for _, eg := range ex.V.specs.errorGhosts {
		if matchAny([]string{eg.Pattern}, funcName(callee)) {
			return false // its error result feeds a ghost at the call site
		}
	}
	// loops inside inlined code are cut without invariants: allow, the havoc is sound
	return true
}

func (ex *Exec) inline(f *frame, st *State, callee *ssa.Function, cc *ssa.CallCommon, args []Term, res ssa.Value, hint string) {
	ex.depth++
	defer func() { ex.depth-- }()
	ex.V.inlineSeq++
	nf := ex.newFrame(callee, fmt.Sprintf("%s/%s.%d:", f.pfx, shortFn(callee), ex.V.inlineSeq))
	nf.inline = true
	nf.outer = f
	if ex.curCall != nil {
		nf.callInstr = ex.curCall
		nf.callBlock = ex.curCall.Block()
	}
	// closure bindings
	if ci, ok := f.clos[cc.Value]; ok && len(callee.FreeVars) > 0 {
		for i, fv := range callee.FreeVars {
			b := ci.bindings[i]
			nf.vals[fv] = f.val(b)
			if l, ok := f.locs[b]; ok {
				nf.locs[fv] = l
			}
			if c, ok := f.clos[b]; ok {
				nf.clos[fv] = c
			}
		}
	}
	// propagate closure/loc descriptors of arguments
	for i, p := range callee.Params {
		if i < len(cc.Args) {
			if c, ok := f.clos[cc.Args[i]]; ok {
				nf.clos[p] = c
			}
			if l, ok := f.locs[cc.Args[i]]; ok {
				nf.locs[p] = l
			}
		}
	}
	entry := st.clone()
	ex.initMarks(nf, entry)
	ex.runBody(nf, entry, args)
	// continue from callee's exit
	st.heap = nf.exit.heap
	st.reach = and(nf.exit.reach)
	if nf.exit.reach.S == "false" {
		st.reach = tFalse
	}
	ex.setResult(f, res, nf.results)
}

func shortFn(fn *ssa.Function) string {
	n := funcName(fn)
	if i := strings.LastIndex(n, "."); i >= 0 {
		return n[i+1:]
	}
	return n
}

func (ex *Exec) newFrame(fn *ssa.Function, pfx string) *frame {
	return &frame{ex: ex, fn: fn, pfx: pfx, vals: map[ssa.Value]Term{}, tuples: map[ssa.Value][]Term{}, locs: map[ssa.Value]*Loc{},
		clos: map[ssa.Value]*closureInfo{}, origin: map[ssa.Value]string{}, rangeMap: map[ssa.Value]ssa.Value{}}
}

// advanceClock: any call may read the clock; the ghost clock only moves forward.
func (ex *Exec) advanceClock(st *State) {
	if _, ok := ex.compSort("G:clock"); !ok {
		return
	}
	old := ex.get(st, "G:clock", SInt)
	nw := ex.sc.freshConst("hv:clock", SInt)
	st.heap["G:clock"] = nw
	ex.sc.assert(app(SBool, ">=", nw, old))
}

func (ex *Exec) havocSet(st *State, mods map[string]bool) {
	ex.advanceClock(st)
	if mods["*"] {
		for _, k := range sortedKeys(ex.V.compSorts) {
			if k == compAlloc || strings.HasPrefix(k, "LK:") || (strings.HasPrefix(k, "LA:") || strings.HasPrefix(k, "LH:")) || strings.HasPrefix(k, "G:") || strings.HasPrefix(k, "S:") {
				continue
			}
			ex.havoc(st, k)
		}
		ex.havocAlloc(st)
		return
	}
	for _, k := range sortedKeys(mods) {
		if k == compAlloc {
			continue
		}
		if strings.HasPrefix(k, "?contract:") {
			// a contracted callee reached inside an uncontracted one
			ct := ex.V.contracts[strings.TrimPrefix(k, "?contract:")]
			cs, star := ex.V.contractComps(ct)
			if star {
				for _, c := range sortedKeys(ex.V.compSorts) {
					if c == compAlloc || strings.HasPrefix(c, "LK:") || (strings.HasPrefix(c, "LA:") || strings.HasPrefix(c, "LH:")) || strings.HasPrefix(c, "G:") || strings.HasPrefix(c, "S:") {
						continue
					}
					ex.havoc(st, c)
				}
			}
			for _, c := range sortedKeys(cs) {
				ex.havoc(st, c)
			}
			continue
		}
		if strings.HasSuffix(k, ".*") && strings.HasPrefix(k, "F:") {
			pfx := strings.TrimSuffix(k, "*")
			for _, c := range sortedKeys(ex.V.compSorts) {
				if strings.HasPrefix(c, pfx) {
					ex.havoc(st, c)
				}
			}
			continue
		}
		ex.havoc(st, k)
	}
	ex.havocAlloc(st)
}

func (ex *Exec) spawn(f *frame, st *State, g *ssa.Go) {
	ex.note("go statement: spawned body's effects are not applied (no thread semantics)")
	callee := g.Call.StaticCallee()
	if callee == nil {
		return
	}
	if c := ex.V.contracts[funcName(callee)]; c != nil {
		var args []Term
		for _, a := range g.Call.Args {
			args = append(args, f.val(a))
		}
		ex.checkRequires(f, st, c, callee, callee.Signature, Term{}, args, g.Call.Args, g.Pos())
	}
}

func (ex *Exec) runDeferred(f *frame, st *State, d deferred) {
	// effects apply only if the defer statement was reached
	before := st.clone()
	sub := st.clone()
	sub.reach = and(st.reach, d.guard)
	ex.callWith(f, sub, d.instr, d.call, nil, d.args)
	// the path continues only where the deferred call returned (an inlined deferred closure that re-panics ends it)
	if sub.reach.S != and(before.reach, d.guard).S {
		st.reach = ex.sc.define(ex.sc.freshName(f.pfx+"reach:defer"), or(and(d.guard, sub.reach), and(not(d.guard), before.reach)))
	}
	// merge: guard ? sub : before
	if d.guard.S == before.reach.S || d.guard.S == "true" {
		st.heap = sub.heap
		return
	}
	keys := map[string]bool{}
	for k := range sub.heap {
		keys[k] = true
	}
	for k := range before.heap {
		keys[k] = true
	}
	for _, k := range sortedKeys(keys) {
		sort := ex.V.compSorts[k]
		a, ok := sub.heap[k]
		if !ok {
			a = ex.sc.declare("pre:"+k, sort)
		}
		b, ok := before.heap[k]
		if !ok {
			b = ex.sc.declare("pre:"+k, sort)
		}
		if a.S == b.S {
			st.heap[k] = a
		} else {
			st.heap[k] = ex.sc.define(ex.sc.freshName("d:"+k), ite(d.guard, a, b))
		}
	}
}

// ---------------------------------------------------------------------------
// builtins

func (ex *Exec) builtin(f *frame, st *State, instr ssa.Instruction, b *ssa.Builtin, cc *ssa.CallCommon, res ssa.Value, args []Term) {
	sc := ex.sc
	set := func(t Term) {
		if res != nil {
			f.vals[res] = sc.define(f.name(res), t)
		}
	}
	switch b.Name() {
	case "len":
		switch u := cc.Args[0].Type().Underlying().(type) {
		case *types.Slice:
			set(app(SInt, "slen", args[0]))
		case *types.Basic:
			set(app(SInt, "str.len", args[0]))
		case *types.Map:
			ml := ex.get(st, compMapLen(u), arraySort(SInt, SInt))
			ex.lockCheckMap(f, st, cc.Args[0], false, instr.Pos())
			set(ite(eq(args[0], intLit(0)), intLit(0), sel(ml, args[0])))
		case *types.Array:
			set(intLit(u.Len()))
		case *types.Pointer:
			set(intLit(u.Elem().Underlying().(*types.Array).Len()))
		default:
			c := sc.freshConst("len", SInt)
			ex.assume(st, app(SBool, ">=", c, intLit(0)))
			set(c)
		}
	case "cap":
		c := sc.freshConst("cap", SInt)
		if _, ok := cc.Args[0].Type().Underlying().(*types.Slice); ok {
			ex.assume(st, app(SBool, ">=", c, app(SInt, "slen", args[0])))
		} else {
			ex.assume(st, app(SBool, ">=", c, intLit(0)))
		}
		set(c)
	case "append":
		sl := cc.Args[0].Type().Underlying().(*types.Slice)
		el := sl.Elem()
		es := sc.sortOf(el)
		comp := compElem(el)
		arr := ex.get(st, comp, arraySort(SInt, arraySort(SInt, es)))
		r := ex.allocRef(st, "append")
		a := args[0]
		// append(s, vs...) where vs is a varargs slice built from a fixed array: copy element-wise when statically known
		if n, elems, ok := ex.staticSliceElems(f, st, cc.Args[1]); ok {
			content := sel(arr, app(SInt, "sarr", a))
			base := app(SInt, "+", app(SInt, "soff", a), app(SInt, "slen", a))
			for i := 0; i < n; i++ {
				content = store(content, app(SInt, "+", base, intLit(int64(i))), elems[i])
			}
			ex.set(st, comp, store(arr, r, content))
			set(app(SSlice, "mkSlice", r, app(SInt, "soff", a), app(SInt, "+", app(SInt, "slen", a), intLit(int64(n)))))
		} else {
			var blen Term
			if args[1].Sort == SStr {
				// bytes of a string appended: the tail's contents are left unknown, the length is known
				blen = app(SInt, "str.len", args[1])
			} else {
				// exact: the new backing array holds a's elements followed by b's (a lambda row over the old rows)
				b := args[1]
				blen = app(SInt, "slen", b)
				oldA := sel(arr, app(SInt, "sarr", a))
				oldB := sel(arr, app(SInt, "sarr", b))
				j := Term{"apj", SInt}
				body := ite(app(SBool, "<", j, app(SInt, "slen", a)),
					sel(oldA, app(SInt, "+", app(SInt, "soff", a), j)),
					sel(oldB, app(SInt, "+", app(SInt, "soff", b), app(SInt, "-", j, app(SInt, "slen", a)))))
				row := Term{"(lambda ((apj Int)) " + body.S + ")", arraySort(SInt, es)}
				ex.set(st, comp, store(arr, r, row))
			}
			set(app(SSlice, "mkSlice", r, intLit(0), app(SInt, "+", app(SInt, "slen", a), blen)))
		}
	case "copy":
		sl := cc.Args[0].Type().Underlying().(*types.Slice)
		comp := compElem(sl.Elem())
		es := sc.sortOf(sl.Elem())
		arr := ex.get(st, comp, arraySort(SInt, arraySort(SInt, es)))
		if args[1].Sort == SSlice {
			// exact (memmove) semantics: n = min(len(dst), len(src)); dst[i] = old src[i] for i < n; everything else unchanged.
			// The new row is a lambda over the OLD rows, so overlapping source and destination are handled.
			dst, src := args[0], args[1]
			n := sc.define(sc.freshName("copyn"), ite(app(SBool, "<=", app(SInt, "slen", dst), app(SInt, "slen", src)), app(SInt, "slen", dst), app(SInt, "slen", src)))
			doff, soff := app(SInt, "soff", dst), app(SInt, "soff", src)
			oldDst := sel(arr, app(SInt, "sarr", dst))
			oldSrc := sel(arr, app(SInt, "sarr", src))
			j := Term{"cpj", SInt}
			body := ite(and(app(SBool, "<=", doff, j), app(SBool, "<", j, app(SInt, "+", doff, n))),
				sel(oldSrc, app(SInt, "+", soff, app(SInt, "-", j, doff))), sel(oldDst, j))
			row := Term{"(lambda ((cpj Int)) " + body.S + ")", arraySort(SInt, es)}
			ex.set(st, comp, store(arr, app(SInt, "sarr", dst), row))
			set(n)
			break
		}
		ex.set(st, comp, store(arr, app(SInt, "sarr", args[0]), sc.freshConst("copied", arraySort(SInt, es))))
		c := sc.freshConst("copyn", SInt)
		ex.assume(st, app(SBool, ">=", c, intLit(0)))
		set(c)
	case "delete":
		m := cc.Args[0].Type().Underlying().(*types.Map)
		ex.lockCheckMap(f, st, cc.Args[0], true, instr.Pos())
		ex.mapDelete(st, m, args[0], args[1])
	case "print", "println", "close", "clear":
	case "recover":
		set(sc.freshConst("recovered", SVal))
	case "min", "max":
		op := "<="
		if b.Name() == "max" {
			op = ">="
		}
		cur := args[0]
		for _, a := range args[1:] {
			cur = ite(app(SBool, op, cur, a), cur, a)
		}
		set(cur)
	default:
		if res != nil {
			f.fresh(res)
		}
		ex.note("unsupported builtin " + b.Name())
	}
}

// staticSliceElems recognises the SSA varargs pattern: slice of a freshly allocated fixed array.
func (ex *Exec) staticSliceElems(f *frame, st *State, v ssa.Value) (int, []Term, bool) {
	sl, ok := v.(*ssa.Slice)
	if !ok || sl.Low != nil || sl.High != nil {
		return 0, nil, false
	}
	al, ok := sl.X.(*ssa.Alloc)
	if !ok {
		return 0, nil, false
	}
	at, ok := al.Type().Underlying().(*types.Pointer).Elem().Underlying().(*types.Array)
	if !ok || at.Len() > 16 {
		return 0, nil, false
	}
	n := int(at.Len())
	es := ex.sc.sortOf(at.Elem())
	arr := ex.get(st, compElem(at.Elem()), arraySort(SInt, arraySort(SInt, es)))
	var elems []Term
	for i := 0; i < n; i++ {
		elems = append(elems, sel(sel(arr, f.val(al)), intLit(int64(i))))
	}
	return n, elems, true
}

// ---------------------------------------------------------------------------
// locks (ghost lockset)

func (ex *Exec) lockIntrinsic(f *frame, st *State, callee *ssa.Function, cc *ssa.CallCommon, pos token.Pos) bool {
	n := callee.String()
	var op string
	switch n {
	case "(*sync.Mutex).Lock", "(*sync.RWMutex).Lock":
		op = "Lock"
	case "(*sync.Mutex).Unlock", "(*sync.RWMutex).Unlock":
		op = "Unlock"
	case "(*sync.RWMutex).RLock":
		op = "RLock"
	case "(*sync.RWMutex).RUnlock":
		op = "RUnlock"
	case "(*sync.Mutex).TryLock", "(*sync.RWMutex).TryLock", "(*sync.RWMutex).TryRLock":
		return false
	default:
		return false
	}
	l := f.locOf(cc.Args[0])
	comp := ex.lockComp(l)
	lk := ex.get(st, comp, arraySort(SInt, SInt))
	cur := sel(lk, l.ref)
	detail := strings.TrimPrefix(comp, "LK:")
	if op == "Lock" || op == "RLock" {
		// ghost acquisition counter per mutex
		ac := "LA:" + strings.TrimPrefix(comp, "LK:")
		la := ex.get(st, ac, arraySort(SInt, SInt))
		ex.set(st, ac, store(la, l.ref, app(SInt, "+", sel(la, l.ref), intLit(1))))
		if ex.lockMode {
			ex.lockOrderCheck(f, st, detail, "", pos)
		}
	}
	// number of mutexes of this kind the goroutine holds (for the declared acquisition order)
	if ex.lockMode && len(ex.V.specs.lockOrders) > 0 {
		hc := "LH:" + detail
		held := ex.heldCount(st, hc)
		switch op {
		case "Lock", "RLock":
			ex.set(st, hc, app(SInt, "+", held, intLit(1)))
		default:
			ex.set(st, hc, app(SInt, "-", held, intLit(1)))
		}
	}
	switch op {
	case "Lock":
		if ex.lockMode {
			ex.oblige(f, st, "lock", "acquire:"+detail, "", pos, eq(cur, intLit(0)), "Lock of a mutex this goroutine already holds (self-deadlock)")
		}
		ex.set(st, comp, store(lk, l.ref, intLit(2)))
	case "RLock":
		if ex.lockMode {
			ex.oblige(f, st, "lock", "racquire:"+detail, "", pos, not(eq(cur, intLit(2))), "RLock of a mutex this goroutine holds for writing (self-deadlock)")
		}
		ex.set(st, comp, store(lk, l.ref, ite(eq(cur, intLit(0)), intLit(1), cur)))
	case "Unlock":
		if ex.lockMode {
			ex.oblige(f, st, "lock", "release:"+detail, "", pos, eq(cur, intLit(2)), "Unlock of a mutex not held for writing")
		}
		ex.set(st, comp, store(lk, l.ref, intLit(0)))
	case "RUnlock":
		if ex.lockMode {
			ex.oblige(f, st, "lock", "rrelease:"+detail, "", pos, eq(cur, intLit(1)), "RUnlock of a mutex not held for reading")
		}
		ex.set(st, comp, store(lk, l.ref, intLit(0)))
	}
	return true
}

// heldCount: how many mutexes of one kind this goroutine holds; none at entry unless the contract requires one of that kind.
func (ex *Exec) heldCount(st *State, hc string) Term {
	ex.regComp(hc, SInt)
	if t, ok := st.heap[hc]; ok {
		return t
	}
	pre := ex.sc.declare("pre:"+hc, SInt)
	if !ex.lhInit[hc] {
		ex.lhInit[hc] = true
		if ex.lkRequired["LK:"+strings.TrimPrefix(hc, "LH:")] {
			ex.sc.axiom(app(SBool, ">=", pre, intLit(0)))
		} else {
			ex.sc.axiom(eq(pre, intLit(0)))
		}
	}
	return pre
}

// lockOrderCheck: acquiring a mutex of kind a (directly, or inside the callee named via) while holding a mutex that the
// declared order places AFTER a is an inversion (two goroutines doing the two orders deadlock).
func (ex *Exec) lockOrderCheck(f *frame, st *State, a string, via string, pos token.Pos) {
	for _, o := range ex.V.specs.lockOrders {
		if o[0] != a {
			continue
		}
		held := ex.heldCount(st, "LH:"+o[1])
		detail := "order:" + o[0] + "<" + o[1]
		desc := "acquiring " + o[0] + " while holding a " + o[1] + " (declared order: " + o[0] + " first)"
		if via != "" {
			detail += "@" + via
			desc += " inside " + via
		}
		ex.oblige(f, st, "lock", detail, "", pos, eq(held, intLit(0)), desc)
	}
}

// lockOrderAtCall: whatever the callee may lock is locked while the caller's mutexes are held.
func (ex *Exec) lockOrderAtCall(f *frame, st *State, cc *ssa.CallCommon, pos token.Pos) {
	var targets []*ssa.Function
	if callee := cc.StaticCallee(); callee != nil {
		switch callee.String() {
		case "(*sync.Mutex).Lock", "(*sync.RWMutex).Lock", "(*sync.RWMutex).RLock", "(*sync.Mutex).Unlock", "(*sync.RWMutex).Unlock", "(*sync.RWMutex).RUnlock":
			return
		}
		targets = append(targets, callee)
	} else if cc.IsInvoke() {
		targets = ex.V.implementations(cc)
	} else {
		for h := range ex.V.addrTaken {
			if types.Identical(stripRecv(h.Signature), stripRecv(cc.Signature())) {
				targets = append(targets, h)
			}
		}
	}
	seen := map[string]bool{}
	for _, t := range targets {
		for _, a := range sortedKeys(ex.V.acquires(t)) {
			if seen[a] {
				continue
			}
			seen[a] = true
			ex.lockOrderCheck(f, st, a, shortFn(t), pos)
		}
	}
}

// dependency methods documented to accept a nil receiver
var nilSafeReceiver = map[string]bool{
	"(*time.Location).String": true, "(*time.Timer).Stop": false,
}

func (ex *Exec) lockComp(l *Loc) string {
	if l.root != nil {
		return compLock(l.root, l.path)
	}
	return "LK:cell"
}

// guardedOrigin returns the guarded-field key ("core.IndexedState.IdToFact") if l is a guarded field.
func (ex *Exec) guardedOrigin(l *Loc) string {
	if l.kind != "obj" || l.root == nil {
		return ""
	}
	key := namedKey(l.root) + "." + l.path
	if _, ok := ex.V.guards[key]; ok {
		return key
	}
	return ""
}

// lockCheckLoc: access to a guarded field requires the guard.
func (ex *Exec) lockCheckLoc(f *frame, st *State, l *Loc, write bool, pos token.Pos) {
	if !ex.lockMode {
		return
	}
	if l.origin != "" {
		ex.lockCheckOrigin(f, st, l.origin, write, pos)
		return
	}
	key := ex.guardedOrigin(l)
	if key == "" {
		return
	}
	ex.lockCheckKey(f, st, key, l.ref, write, pos)
}

func (ex *Exec) lockCheckMap(f *frame, st *State, m ssa.Value, write bool, pos token.Pos) {
	if !ex.lockMode {
		return
	}
	if o, ok := f.origin[m]; ok {
		ex.lockCheckOrigin(f, st, o, write, pos)
	}
}

func (ex *Exec) lockCheckOrigin(f *frame, st *State, origin string, write bool, pos token.Pos) {
	i := strings.LastIndex(origin, "@")
	key, ref := origin[:i], Term{origin[i+1:], SInt}
	ex.lockCheckKey(f, st, key, ref, write, pos)
}

func (ex *Exec) lockCheckKey(f *frame, st *State, key string, ref Term, write bool, pos token.Pos) {
	g := ex.V.guards[key]
	comp := "LK:" + g.lockKey
	lk := ex.get(st, comp, arraySort(SInt, SInt))
	cur := sel(lk, ref)
	var goal Term
	mode := "read"
	if write {
		goal = eq(cur, intLit(2))
		mode = "write"
	} else {
		goal = app(SBool, ">=", cur, intLit(1))
	}
	// objects allocated in this function and not yet shared are exempt
	fresh := app(SBool, ">=", ref, ex.sc.declare("pre:"+compAlloc, SInt))
	ex.regComp(compAlloc, SInt)
	extra := tFalse
	if ex.V.lockExempt != nil {
		extra = ex.V.lockExempt(ex, f, st)
	}
	ex.oblige(f, st, "guard", mode+":"+key, "", pos, or(goal, fresh, extra), fmt.Sprintf("%s of %s requires %s held", mode, key, g.lockKey))
}

// ---------------------------------------------------------------------------
// intrinsics: models of external functions (listed in evidence as assumptions)

func (ex *Exec) intrinsic(f *frame, st *State, callee *ssa.Function, cc *ssa.CallCommon, res ssa.Value, args []Term, hint string, pos token.Pos) bool {
	sc := ex.sc
	n := callee.String()
	set := func(t Term) {
		if res != nil {
			f.vals[res] = sc.define(f.name(res), t)
		}
	}
	timeSort := func() string { return sc.sortOf(callee.Signature.Results().At(0).Type()) }
	switch n {
	case "time.Now":
		// fresh instant, not earlier than any previous reading in this function
		t := sc.freshConst("now", timeSort())
		nanos := sc.declareFun("time.nanos", []string{t.Sort}, SInt)
		last := ex.get(st, "G:clock", SInt)
		ex.assume(st, and(app(SBool, ">=", app(SInt, nanos, t), last), app(SBool, ">=", app(SInt, nanos, t), intLit(1000000000))))
		ex.set(st, "G:clock", app(SInt, nanos, t))
		set(t)
		ex.note("intrinsic: time.Now() returns a fresh instant >= every earlier reading (wall clock, monotone, after 1970-01-01T00:00:01Z)")
		return true
	case "(time.Time).UTC", "(time.Time).Local", "(time.Time).Round", "(time.Time).Truncate":
		if n == "(time.Time).UTC" || n == "(time.Time).Local" {
			// same instant; only the location differs
			t := sc.freshConst("tloc", args[0].Sort)
			nanos := sc.declareFun("time.nanos", []string{t.Sort}, SInt)
			ex.assume(st, eq(app(SInt, nanos, t), app(SInt, nanos, args[0])))
			set(t)
			return true
		}
	case "(time.Time).Unix":
		nanos := sc.declareFun("time.nanos", []string{args[0].Sort}, SInt)
		set(app(SInt, "div", app(SInt, nanos, args[0]), intLit(1000000000)))
		ex.note("intrinsic: Time.Unix() = floor(nanos / 1e9)")
		return true
	case "(time.Time).UnixNano":
		// the documented behaviour: the nanoseconds since the epoch when they fit in an int64 (years 1678 to 2262),
		// otherwise undefined
		nanos := sc.declareFun("time.nanos", []string{args[0].Sort}, SInt)
		n := app(SInt, nanos, args[0])
		r := sc.freshConst(hint+"#unixnano", SInt)
		inRange := and(app(SBool, "<=", Term{"(- 9223372036854775808)", SInt}, n), app(SBool, "<=", n, Term{"9223372036854775807", SInt}))
		ex.assume(st, implies(inRange, eq(r, n)))
		set(r)
		ex.note("intrinsic: Time.UnixNano() = nanos when they fit in 64 bits, otherwise unspecified")
		return true
	case "(time.Time).Add":
		t := sc.freshConst("tadd", args[0].Sort)
		nanos := sc.declareFun("time.nanos", []string{t.Sort}, SInt)
		ex.assume(st, eq(app(SInt, nanos, t), app(SInt, "+", app(SInt, nanos, args[0]), args[1])))
		set(t)
		return true
	case "(time.Time).Sub":
		nanos := sc.declareFun("time.nanos", []string{args[0].Sort}, SInt)
		set(app(SInt, "-", app(SInt, nanos, args[0]), app(SInt, nanos, args[1])))
		return true
	case "(time.Time).Before":
		nanos := sc.declareFun("time.nanos", []string{args[0].Sort}, SInt)
		set(app(SBool, "<", app(SInt, nanos, args[0]), app(SInt, nanos, args[1])))
		return true
	case "(time.Time).After":
		nanos := sc.declareFun("time.nanos", []string{args[0].Sort}, SInt)
		set(app(SBool, ">", app(SInt, nanos, args[0]), app(SInt, nanos, args[1])))
		return true
	case "(time.Time).Equal":
		nanos := sc.declareFun("time.nanos", []string{args[0].Sort}, SInt)
		set(eq(app(SInt, nanos, args[0]), app(SInt, nanos, args[1])))
		return true
	case "(time.Duration).Nanoseconds":
		set(args[0])
		return true
	case "(time.Duration).Seconds":
		set(app(SReal, "/", app(SReal, "to_real", args[0]), Term{"1000000000.0", SReal}))
		return true
	case "time.Since":
		t := sc.freshConst("now", args[0].Sort)
		nanos := sc.declareFun("time.nanos", []string{t.Sort}, SInt)
		last := ex.get(st, "G:clock", SInt)
		ex.assume(st, app(SBool, ">=", app(SInt, nanos, t), last))
		ex.set(st, "G:clock", app(SInt, nanos, t))
		set(app(SInt, "-", app(SInt, nanos, t), app(SInt, nanos, args[0])))
		return true
	case "strings.HasPrefix":
		set(app(SBool, "str.prefixof", args[1], args[0]))
		return true
	case "strings.HasSuffix":
		set(app(SBool, "str.suffixof", args[1], args[0]))
		return true
	case "strings.Contains":
		set(app(SBool, "str.contains", args[0], args[1]))
		return true
	case "strings.Index":
		set(app(SInt, "str.indexof", args[0], args[1], intLit(0)))
		return true
	case "strings.TrimPrefix":
		set(ite(app(SBool, "str.prefixof", args[1], args[0]), app(SStr, "str.substr", args[0], app(SInt, "str.len", args[1]), app(SInt, "-", app(SInt, "str.len", args[0]), app(SInt, "str.len", args[1]))), args[0]))
		return true
	case "errors.New", "fmt.Errorf":
		// a non-nil error
		r := sc.freshConst(hint+"#err", SVal)
		ex.assume(st, not(eq(r, Term{"VNil", SVal})))
		set(r)
		return true
	case "fmt.Sprintf", "fmt.Sprint", "fmt.Sprintln":
		if t, ok := ex.sprintfExact(f, callee, cc); ok {
			set(t)
			return true
		}
		set(sc.freshConst(hint+"#str", SStr))
		return true
	case "(*sync.WaitGroup).Add", "(*sync.WaitGroup).Done", "(*sync.WaitGroup).Wait":
		ex.note("sync.WaitGroup calls are no-ops (no thread semantics)")
		return true
	}
	return false
}

// sprintfExact: fmt.Sprintf with a constant format made of literal text, %s / %v verbs and %%, all of whose arguments are
// strings, is the concatenation it denotes (so that "a" + x + "b" may be rewritten as Sprintf("a%sb", x)).
func (ex *Exec) sprintfExact(f *frame, callee *ssa.Function, cc *ssa.CallCommon) (Term, bool) {
	if callee.String() != "fmt.Sprintf" || len(cc.Args) != 2 {
		return Term{}, false
	}
	fc, ok := cc.Args[0].(*ssa.Const)
	if !ok || fc.Value == nil || fc.Value.Kind() != constant.String {
		return Term{}, false
	}
	format := constant.StringVal(fc.Value)
	// the variadic arguments: a slice of a local array whose cells are assigned boxed strings
	sl, ok := cc.Args[1].(*ssa.Slice)
	if !ok || sl.Low != nil || sl.High != nil {
		return Term{}, false
	}
	al, ok := sl.X.(*ssa.Alloc)
	if !ok {
		return Term{}, false
	}
	args := map[int64]ssa.Value{}
	for _, ref := range *al.Referrers() {
		ia, ok := ref.(*ssa.IndexAddr)
		if !ok {
			continue
		}
		ic, ok := ia.Index.(*ssa.Const)
		if !ok {
			return Term{}, false
		}
		k, _ := constInt(ic)
		for _, r2 := range *ia.Referrers() {
			if st, ok := r2.(*ssa.Store); ok && st.Addr == ia {
				mi, ok := st.Val.(*ssa.MakeInterface)
				if !ok {
					return Term{}, false
				}
				if b, ok := mi.X.Type().Underlying().(*types.Basic); !ok || b.Kind() != types.String {
					return Term{}, false
				}
				if _, dup := args[k]; dup {
					return Term{}, false
				}
				args[k] = mi.X
			}
		}
	}
	var parts []Term
	lit := ""
	n := int64(0)
	flush := func() {
		if lit != "" {
			parts = append(parts, strLit(lit))
			lit = ""
		}
	}
	for i := 0; i < len(format); i++ {
		if format[i] != '%' {
			lit += string(format[i])
			continue
		}
		if i+1 >= len(format) {
			return Term{}, false
		}
		i++
		switch format[i] {
		case '%':
			lit += "%"
		case 's', 'v':
			a, ok := args[n]
			if !ok {
				return Term{}, false
			}
			n++
			flush()
			parts = append(parts, f.val(a))
		default:
			return Term{}, false
		}
	}
	flush()
	if n != int64(len(args)) {
		return Term{}, false
	}
	if len(parts) == 0 {
		return strLit(""), true
	}
	cur := parts[0]
	for _, p := range parts[1:] {
		cur = app(SStr, "str.++", cur, p)
	}
	return cur, true
}

// errConvention: for dependency (non-rulio) functions returning (..., error): when the error is nil the
// pointer / map / interface results are non-nil (assumed contract of dependencies; listed in evidence).
func (ex *Exec) errConvention(st *State, sig *types.Signature, rs []Term) {
	n := sig.Results().Len()
	if n < 2 {
		return
	}
	last := sig.Results().At(n - 1).Type()
	if typeStr(last) != "error" {
		return
	}
	errNil := eq(rs[n-1], Term{"VNil", SVal})
	for i := 0; i < n-1; i++ {
		t := sig.Results().At(i).Type()
		switch t.Underlying().(type) {
		case *types.Pointer, *types.Map:
			ex.assume(st, implies(errNil, not(eq(rs[i], intLit(0)))))
		case *types.Interface:
			ex.assume(st, implies(errNil, not(eq(rs[i], Term{"VNil", SVal}))))
		}
	}
}

// applyGhost: ghost instrumentation (also-modifies + ghost-ensures) of a contract, for an inlined call.
func (ex *Exec) applyGhost(f *frame, st, pre *State, c *Contract, callee *ssa.Function, args, results []Term) {
	envPre := ex.contractEnv(c, callee, callee.Signature, Term{}, nil, args, pre, pre)
	for _, g := range c.AlsoMods {
		if gv, ok := ex.V.specs.ghosts[g]; ok {
			if sort, _, err := envPre.ghostSort(gv); err == nil {
				ex.regComp("G:"+gv.Name, sort)
			}
			ex.havoc(st, "G:"+gv.Name)
		}
	}
	envPost := ex.contractEnv(c, callee, callee.Signature, Term{}, nil, args, st, pre)
	rs := callee.Signature.Results()
	for i := 0; i < rs.Len() && i < len(results); i++ {
		if n := rs.At(i).Name(); n != "" && n != "_" {
			envPost.vars[n] = tv{t: results[i], typ: rs.At(i).Type()}
		}
		envPost.vars[fmt.Sprintf("result%d", i)] = tv{t: results[i], typ: rs.At(i).Type()}
	}
	if rs.Len() >= 1 && len(results) >= 1 {
		envPost.vars["result"] = tv{t: results[0], typ: rs.At(0).Type()}
	}
	for _, e := range c.GhostEns {
		v, err := envPost.trans(e.Expr)
		if err != nil {
			ex.oblige(f, st, "requires", shortKey(c.Key)+":ensures-does-not-attach", e.Label, token.NoPos, tFalse, "a clause of the callee's contract no longer attaches ("+err.Error()+"): "+e.Text)
			continue
		}
		ex.assume(st, v.t)
	}
}
