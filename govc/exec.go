package main

import (
	"fmt"
	"go/ast"
	"go/constant"
	"go/token"
	"go/types"
	"os"
	"sort"
	"strings"

	"golang.org/x/tools/go/ssa"
)

// ---------------------------------------------------------------------------
// Obligations

type Obligation struct {
	Name   string // stable name: fn#kind:detail
	Fn     string
	Kind   string // typeassert, index, nilderef, nilmap, divzero, panic, ensures, requires, invariant, lock, frame, ...
	Label  string // contract label (with property tags) if any
	Pos    string
	Desc   string
	N      int  // number of script assertions visible
	Hyp    Term // path condition
	Goal   Term // must hold under Hyp
	Script *Script
	Inline bool          // generated inside an inlined callee
	Agree  int           // thorough tier: number of solvers that answered unsat
	Ante   *Term         // antecedent of an implication-shaped goal (for the vacuity cover)
	Root   *ssa.Function // the function under verification (witness replay calls it)
	// results
	Status string // unsat (discharged) | sat | unknown | timeout
	Solver string
	Millis int64
	Model  string
}

// ---------------------------------------------------------------------------
// Symbolic state

type deferred struct {
	guard Term
	call  *ssa.CallCommon
	instr ssa.Instruction
	args  []Term
	fnval Term
}

type State struct {
	reach  Term
	heap   map[string]Term
	defers []deferred
}

func (st *State) clone() *State {
	h := make(map[string]Term, len(st.heap))
	for k, v := range st.heap {
		h[k] = v
	}
	return &State{reach: st.reach, heap: h, defers: append([]deferred(nil), st.defers...)}
}

// Loc describes where a pointer points.
type Loc struct {
	kind   string     // "obj" (ref to flattened struct or cell), "elem"
	typ    types.Type // pointee type
	ref    Term       // base object reference (obj) / array ref (elem)
	idx    Term       // element index (elem)
	root   types.Type // obj: outermost struct type the path starts from (nil for cells)
	path   string     // obj: flattened field path "a.b"
	sub    []int      // elem: field indices inside the element value
	elemT  types.Type // elem: element type of the array
	origin string     // guarded-field provenance, e.g. "core.IndexedState.IdToFact"
}

type closureInfo struct {
	fn       *ssa.Function
	bindings []ssa.Value
}

// Exec symbolically executes one function (and inlined callees) into a Script.
type Exec struct {
	V             *Verifier
	sc            *Script
	root          *ssa.Function
	obls          []*Obligation
	notes         map[string]bool // assumptions / unsupported features encountered
	counts        map[string]int  // for obligation naming
	depth         int
	curCall       ssa.Instruction             // the call instruction being executed (for frames inlined at it)
	ifaces        map[string]*types.Interface // interfaces asserted against
	lockMode      bool
	private       []Term // refs of non-escaping local cells (all frames)
	noRestore     map[string]bool
	privateAllocs []privAlloc
	skolems       map[string]Term
	instCands     map[string][]Term
	qhyps         []qHyp
	inRequires    bool
	lkRequired    map[string]bool
	lkInit        map[string]bool
	lhInit        map[string]bool
}

type frame struct {
	ex           *Exec
	fn           *ssa.Function
	pfx          string
	vals         map[ssa.Value]Term
	tuples       map[ssa.Value][]Term
	locs         map[ssa.Value]*Loc
	clos         map[ssa.Value]*closureInfo
	origin       map[ssa.Value]string // value loaded from guarded field
	inline       bool
	contract     *Contract
	entry        *State // entry state (for old())
	params       []Term
	results      []Term // at exit (merged)
	exit         *State
	outer        *frame          // the frame this one is inlined into
	callBlock    *ssa.BasicBlock // ... and the call it was inlined at
	callInstr    ssa.Instruction
	loopInfo     map[*ssa.BasicBlock]*loopInfo
	rangeMap     map[ssa.Value]ssa.Value // Range value -> ranged collection
	namedResults []*ssa.Alloc
}

type loopInfo struct {
	header   *ssa.BasicBlock
	body     map[*ssa.BasicBlock]bool
	backSrcs []*ssa.BasicBlock
	ordinal  int
}

func (ex *Exec) note(s string) { ex.notes[s] = true }

func (f *frame) name(v ssa.Value) string {
	return f.pfx + v.Name()
}

// ---------------------------------------------------------------------------
// heap access

func (ex *Exec) compSort(name string) (string, bool) {
	s, ok := ex.V.compSorts[name]
	return s, ok
}

func (ex *Exec) regComp(name, sort string) {
	if old, ok := ex.V.compSorts[name]; ok {
		if old != sort {
			panic(fmt.Sprintf("component %s: sort %s vs %s", name, old, sort))
		}
		return
	}
	ex.V.compSorts[name] = sort
}

func (ex *Exec) get(st *State, comp, sort string) Term {
	ex.regComp(comp, sort)
	if t, ok := st.heap[comp]; ok {
		return t
	}
	pre := ex.sc.declare("pre:"+comp, sort)
	if ex.lockMode && strings.HasPrefix(comp, "LK:") {
		if ex.inRequires {
			ex.lkRequired[comp] = true
		} else if !ex.lkRequired[comp] && !ex.lkInit[comp] {
			// this goroutine holds no mutex at entry unless the contract requires one
			ex.lkInit[comp] = true
			ex.sc.axiom(eq(pre, Term{"((as const (Array Int Int)) 0)", sort}))
		}
	}
	return pre
}

func (ex *Exec) set(st *State, comp string, t Term) {
	ex.regComp(comp, t.Sort)
	// name it to keep terms small
	c := ex.sc.define(ex.sc.freshName("h:"+comp), t)
	st.heap[comp] = c
}

func (ex *Exec) havoc(st *State, comp string) {
	sort, ok := ex.compSort(comp)
	if !ok {
		return // never used: nothing to forget
	}
	old := ex.get(st, comp, sort)
	nw := ex.sc.freshConst("hv:"+comp, sort)
	// cells of this activation whose address never escapes cannot be written by a callee
	if len(ex.private) > 0 && strings.HasPrefix(sort, "(Array Int ") && (strings.HasPrefix(comp, "C:") || strings.HasPrefix(comp, "F:")) {
		cur := nw
		for _, r := range ex.private {
			if ex.noRestore[r.S] {
				continue
			}
			cur = store(cur, r, sel(old, r))
		}
		st.heap[comp] = ex.sc.define(ex.sc.freshName("hp:"+comp), cur)
		return
	}
	st.heap[comp] = nw
}

// loopHavoc forgets a component at a loop header (the loop body itself may write private cells).
func (ex *Exec) loopHavoc(st *State, comp string) {
	sort, ok := ex.compSort(comp)
	if !ok {
		return
	}
	st.heap[comp] = ex.sc.freshConst("lhv:"+comp, sort)
}

func (ex *Exec) getFrom(heap map[string]Term, comp, sort string) Term {
	if t, ok := heap[comp]; ok {
		return t
	}
	return ex.sc.declare("pre:"+comp, sort)
}

// skolemFor: one constant per quantified clause (keyed by its text) of the function under verification.
// candClass: instantiation candidates are pooled by sort; Int-sorted terms are further split into indices (Go integers)
// and references (pointers, maps, ...) so that index quantifiers are not instantiated at references and vice versa.
func candClass(sort string, t types.Type) string {
	if sort != SInt {
		return sort
	}
	if t != nil {
		if b, ok := t.Underlying().(*types.Basic); ok && b.Info()&types.IsInteger != 0 {
			return "Int#idx"
		}
	}
	return "Int#ref"
}

func (ex *Exec) addCand(class string, t Term) bool {
	if ex.instCands == nil {
		ex.instCands = map[string][]Term{}
	}
	for _, c := range ex.instCands[class] {
		if c.S == t.S {
			return false
		}
	}
	ex.instCands[class] = append(ex.instCands[class], t)
	return true
}

func (ex *Exec) skolemFor(key, sort string, typ types.Type) Term {
	if ex.skolems == nil {
		ex.skolems = map[string]Term{}
	}
	if t, ok := ex.skolems[key]; ok {
		return t
	}
	t := ex.sc.freshConst("sk", sort)
	ex.skolems[key] = t
	ex.addCand(candClass(sort, typ), t)
	return t
}

// qHyp: an assumed clause with quantifiers, kept so that it can be instantiated again at candidate terms that appear later
// (loop indices). env holds snapshots of the states the clause was assumed in.
type qHyp struct {
	env   Env
	expr  ast.Expr
	guard Term
}

func (ex *Exec) hasForall(e ast.Expr, depth int) bool {
	found := false
	ast.Inspect(e, func(n ast.Node) bool {
		if ce, ok := n.(*ast.CallExpr); ok {
			if id, ok := ce.Fun.(*ast.Ident); ok {
				if id.Name == "forall" {
					found = true
				} else if d, ok := ex.V.specs.defines[id.Name]; ok && depth < 8 && ex.hasForall(d.Body, depth+1) {
					found = true
				}
			}
		}
		return !found
	})
	return found
}

// recordQ remembers a quantified assumption (made under guard) for later re-instantiation.
func (ex *Exec) recordQ(env *Env, expr ast.Expr, guard Term) {
	if !ex.hasForall(expr, 0) {
		return
	}
	c := *env
	if c.st != nil {
		c.st = c.st.clone()
	}
	if c.old != nil {
		c.old = c.old.clone()
	}
	vars := map[string]tv{}
	for k, v := range env.vars {
		vars[k] = v
	}
	c.vars = vars
	ex.qhyps = append(ex.qhyps, qHyp{env: c, expr: expr, guard: guard})
}

// addCandidate registers a new instantiation term and instantiates the recorded quantified assumptions at it.
func (ex *Exec) addCandidate(t Term, typ types.Type) {
	if len(ex.qhyps) == 0 {
		return
	}
	if !ex.addCand(candClass(t.Sort, typ), t) {
		return
	}
	for i := range ex.qhyps {
		q := ex.qhyps[i]
		env := q.env
		v, err := env.trans(q.expr)
		if err != nil {
			continue
		}
		ex.sc.assert(implies(q.guard, v.t))
	}
}

type privAlloc struct {
	alloc *ssa.Alloc
	ref   Term
	f     *frame
}

// assume adds a fact guarded by the state's reachability.
func (ex *Exec) assume(st *State, fact Term) {
	ex.sc.assert(implies(st.reach, fact))
}

func (ex *Exec) oblige(f *frame, st *State, kind, detail, label string, pos token.Pos, goal Term, desc string) *Obligation {
	if goal.S == "true" {
		return nil
	}
	fnName := funcName(f.fn)
	if f.inline && lockKinds[kind] {
		// lock-discipline obligations inside an inlined callee belong to the activation under verification
		detail += "@" + shortFn(f.fn)
		fnName = funcName(ex.root)
	}
	base := fnName + "#" + kind
	if detail != "" {
		base += ":" + detail
	}
	ex.counts[base]++
	name := base
	if ex.counts[base] > 1 {
		name = fmt.Sprintf("%s~%d", base, ex.counts[base])
	}
	o := &Obligation{Name: name, Fn: fnName, Kind: kind, Label: label, Desc: desc,
		N: len(ex.sc.asserts), Hyp: st.reach, Goal: goal, Script: ex.sc, Inline: f.inline, Root: ex.root}
	if pos.IsValid() {
		p := ex.V.P.Fset.Position(pos)
		o.Pos = fmt.Sprintf("%s:%d", shortPos(p.Filename), p.Line)
	}
	ex.obls = append(ex.obls, o)
	// after a check whose failure stops execution (a panic), the path continues only if it held;
	// contract / lock obligations are not assumed (a definite failure must not make the rest vacuous)
	if sweepKinds[kind] {
		ex.assume(st, goal)
	}
	return o
}

// ---------------------------------------------------------------------------
// values

func (f *frame) val(v ssa.Value) Term {
	ex := f.ex
	if t, ok := f.vals[v]; ok {
		return t
	}
	switch x := v.(type) {
	case *ssa.Const:
		return ex.constTerm(x)
	case *ssa.Function:
		return ex.funcRef(x)
	case *ssa.Global:
		return ex.globalRef(x)
	case *ssa.Builtin:
		return intLit(0)
	}
	// not yet defined (back-edge operand or unsupported): fresh
	t := ex.sc.declare(f.name(v)+"?", ex.sc.sortOf(v.Type()))
	f.vals[v] = t
	return t
}

func (ex *Exec) funcRef(fn *ssa.Function) Term {
	id, ok := ex.V.funcIDs[fn]
	if !ok {
		id = len(ex.V.funcIDs) + 1000
		ex.V.funcIDs[fn] = id
	}
	return intLit(int64(id))
}

func (ex *Exec) globalRef(g *ssa.Global) Term {
	name := "g:" + strings.TrimPrefix(g.Pkg.Pkg.Path(), modPath+"/") + "." + g.Name()
	c := ex.sc.declare(name, SInt)
	if !ex.V.globalSeen[ex.sc][name] {
		if ex.V.globalSeen[ex.sc] == nil {
			ex.V.globalSeen[ex.sc] = map[string]bool{}
		}
		ex.V.globalSeen[ex.sc][name] = true
		// distinct negative addresses for globals
		n := len(ex.V.globalSeen[ex.sc])
		ex.sc.axiom(eq(c, intLit(int64(-n))))
	}
	return c
}

func (ex *Exec) constTerm(c *ssa.Const) Term {
	sc := ex.sc
	t := c.Type()
	if c.Value == nil {
		// nil or zero value
		if _, ok := t.Underlying().(*types.Basic); ok && t.Underlying().(*types.Basic).Kind() == types.UntypedNil {
			return Term{"VNil", SVal}
		}
		return sc.zero(t)
	}
	switch sc.sortOf(t) {
	case SBool:
		if constant.BoolVal(c.Value) {
			return tTrue
		}
		return tFalse
	case SInt:
		if c.Value.Kind() == constant.Float {
			f, _ := constant.Float64Val(c.Value)
			return intLit(int64(f))
		}
		if i, ok := constant.Int64Val(constant.ToInt(c.Value)); ok {
			return intLit(i)
		}
		if u, ok := constant.Uint64Val(constant.ToInt(c.Value)); ok {
			return Term{fmt.Sprintf("%d", u), SInt}
		}
		return sc.freshConst("bigconst", SInt)
	case SReal:
		r := constant.ToFloat(c.Value)
		num := constant.Num(r)
		den := constant.Denom(r)
		if num.Kind() == constant.Int && den.Kind() == constant.Int {
			ns := num.ExactString()
			neg := strings.HasPrefix(ns, "-")
			ns = strings.TrimPrefix(ns, "-")
			s := fmt.Sprintf("(/ %s.0 %s.0)", ns, den.ExactString())
			if neg {
				s = "(- " + s + ")"
			}
			return Term{s, SReal}
		}
		return sc.freshConst("realconst", SReal)
	case SStr:
		return strLit(constant.StringVal(c.Value))
	}
	return sc.freshConst("const", sc.sortOf(t))
}

// ---------------------------------------------------------------------------
// Locations

func (f *frame) locOf(v ssa.Value) *Loc {
	if l, ok := f.locs[v]; ok {
		return l
	}
	pt, ok := v.Type().Underlying().(*types.Pointer)
	if !ok {
		panic("locOf non-pointer " + v.String())
	}
	l := &Loc{kind: "obj", typ: pt.Elem(), ref: f.val(v)}
	if _, isStruct := pt.Elem().Underlying().(*types.Struct); isStruct {
		l.root = pt.Elem()
	}
	return l
}

func (ex *Exec) fieldLoc(base *Loc, i int) *Loc {
	st := base.typ.Underlying().(*types.Struct)
	fld := st.Field(i)
	switch base.kind {
	case "obj":
		p := fld.Name()
		if base.path != "" {
			p = base.path + "." + fld.Name()
		}
		return &Loc{kind: "obj", typ: fld.Type(), ref: base.ref, root: base.root, path: p}
	case "elem":
		return &Loc{kind: "elem", typ: fld.Type(), ref: base.ref, idx: base.idx, elemT: base.elemT, sub: append(append([]int(nil), base.sub...), i)}
	}
	panic("fieldLoc")
}

// load reads the value at a location.
func (ex *Exec) load(st *State, l *Loc) Term {
	sc := ex.sc
	if l.kind == "obj" && l.root == nil && strings.HasPrefix(l.ref.S, "|g:") || l.kind == "obj" && l.root == nil && strings.HasPrefix(l.ref.S, "g:") {
		name := strings.Trim(l.ref.S, "|")
		name = strings.TrimPrefix(name, "g:")
		if ex.V.specs.constGlobals[name] {
			// never reassigned: one fixed value, allocated before this activation started
			c := sc.declare("gconst:"+name, sc.sortOf(l.typ))
			if isPointerLike(l.typ) {
				sc.axiom(and(app(SBool, ">", c, intLit(0)), app(SBool, "<", c, sc.declare("pre:"+compAlloc, SInt))))
			}
			if sc.sortOf(l.typ) == SVal {
				sc.axiom(not(eq(c, Term{"VNil", SVal}))) // initialised once with a non-nil value
			}
			return c
		}
	}
	switch l.kind {
	case "obj":
		if s, ok := l.typ.Underlying().(*types.Struct); ok && l.root != nil {
			ss := sc.structOf(l.typ)
			if s.NumFields() == 0 {
				return Term{"mk" + ss.name, ss.name}
			}
			var args []Term
			for i := 0; i < s.NumFields(); i++ {
				args = append(args, ex.load(st, ex.fieldLoc(l, i)))
			}
			return app(ss.name, "mk"+ss.name, args...)
		}
		sort := sc.sortOf(l.typ)
		var comp string
		if l.root == nil {
			comp = compCell(l.typ)
		} else {
			comp = compField(l.root, l.path)
		}
		return sel(ex.get(st, comp, arraySort(SInt, sort)), l.ref)
	case "elem":
		es := sc.sortOf(l.elemT)
		arr := ex.get(st, compElem(l.elemT), arraySort(SInt, arraySort(SInt, es)))
		v := sel(sel(arr, l.ref), l.idx)
		t := l.elemT
		for _, i := range l.sub {
			ss := sc.structOf(t)
			v = app(ss.sorts[i], ss.fields[i], v)
			t = t.Underlying().(*types.Struct).Field(i).Type()
		}
		return v
	}
	panic("load")
}

func (ex *Exec) storeLoc(st *State, l *Loc, v Term) {
	sc := ex.sc
	switch l.kind {
	case "obj":
		if s, ok := l.typ.Underlying().(*types.Struct); ok && l.root != nil {
			ss := sc.structOf(l.typ)
			for i := 0; i < s.NumFields(); i++ {
				ex.storeLoc(st, ex.fieldLoc(l, i), app(ss.sorts[i], ss.fields[i], v))
			}
			return
		}
		sort := sc.sortOf(l.typ)
		var comp string
		if l.root == nil {
			comp = compCell(l.typ)
		} else {
			comp = compField(l.root, l.path)
		}
		a := ex.get(st, comp, arraySort(SInt, sort))
		ex.set(st, comp, store(a, l.ref, v))
	case "elem":
		es := sc.sortOf(l.elemT)
		comp := compElem(l.elemT)
		arr := ex.get(st, comp, arraySort(SInt, arraySort(SInt, es)))
		old := sel(sel(arr, l.ref), l.idx)
		nv := ex.updateSub(l.elemT, old, l.sub, v)
		ex.set(st, comp, store(arr, l.ref, store(sel(arr, l.ref), l.idx, nv)))
	}
}

func (ex *Exec) updateSub(t types.Type, old Term, sub []int, v Term) Term {
	if len(sub) == 0 {
		return v
	}
	ss := ex.sc.structOf(t)
	s := t.Underlying().(*types.Struct)
	var args []Term
	for i := 0; i < s.NumFields(); i++ {
		fv := app(ss.sorts[i], ss.fields[i], old)
		if i == sub[0] {
			fv = ex.updateSub(s.Field(i).Type(), fv, sub[1:], v)
		}
		args = append(args, fv)
	}
	return app(ss.name, "mk"+ss.name, args...)
}

// allocRef returns a fresh, previously unallocated reference. Allocation is a counter:
// a reference r is allocated iff 0 < r < nextRef (globals have negative addresses, nil is 0).
func (ex *Exec) allocRef(st *State, hint string) Term {
	n := ex.get(st, compAlloc, SInt)
	r := ex.sc.define(ex.sc.freshName(hint), n)
	ex.set(st, compAlloc, app(SInt, "+", n, intLit(1)))
	return r
}

// wellTyped adds the standing assumption about a value of Go type t obtained from
// outside (parameter, heap load, call result): references are allocated or nil, lengths are >= 0.
func (ex *Exec) wellTyped(st *State, v Term, t types.Type) {
	switch t.Underlying().(type) {
	case *types.Pointer, *types.Map, *types.Chan:
		ex.assume(st, app(SBool, "<", v, ex.get(st, compAlloc, SInt)))
		if m, ok := t.Underlying().(*types.Map); ok {
			ml := ex.get(st, compMapLen(m), arraySort(SInt, SInt))
			ex.assume(st, app(SBool, ">=", sel(ml, v), intLit(0)))
		}
	case *types.Slice:
		ex.assume(st, and(app(SBool, ">=", app(SInt, "slen", v), intLit(0)), app(SBool, ">=", app(SInt, "soff", v), intLit(0)),
			app(SBool, "<", app(SInt, "sarr", v), ex.get(st, compAlloc, SInt)), app(SBool, ">=", app(SInt, "sarr", v), intLit(0)),
			implies(eq(app(SInt, "sarr", v), intLit(0)), eq(app(SInt, "slen", v), intLit(0)))))
	case *types.Basic:
		b := t.Underlying().(*types.Basic)
		if b.Info()&types.IsUnsigned != 0 {
			ex.assume(st, app(SBool, ">=", v, intLit(0)))
		}
	}
}

// ---------------------------------------------------------------------------
// CFG utilities

func findLoops(fn *ssa.Function) map[*ssa.BasicBlock]*loopInfo {
	loops := map[*ssa.BasicBlock]*loopInfo{}
	for _, b := range fn.Blocks {
		for _, s := range b.Succs {
			if s.Dominates(b) { // back edge b -> s
				li := loops[s]
				if li == nil {
					li = &loopInfo{header: s, body: map[*ssa.BasicBlock]bool{s: true}}
					loops[s] = li
				}
				li.backSrcs = append(li.backSrcs, b)
				// collect body: backwards from b until header
				stack := []*ssa.BasicBlock{b}
				for len(stack) > 0 {
					x := stack[len(stack)-1]
					stack = stack[:len(stack)-1]
					if li.body[x] {
						continue
					}
					li.body[x] = true
					stack = append(stack, x.Preds...)
				}
			}
		}
	}
	// ordinals by source position of header (block index order is source order in practice)
	var hs []*ssa.BasicBlock
	for h := range loops {
		hs = append(hs, h)
	}
	sort.Slice(hs, func(i, j int) bool { return hs[i].Index < hs[j].Index })
	for i, h := range hs {
		loops[h].ordinal = i + 1
	}
	return loops
}

func isBackEdge(from, to *ssa.BasicBlock) bool { return to.Dominates(from) }

func topoOrder(fn *ssa.Function) []*ssa.BasicBlock {
	seen := map[*ssa.BasicBlock]bool{}
	var post []*ssa.BasicBlock
	var dfs func(b *ssa.BasicBlock)
	dfs = func(b *ssa.BasicBlock) {
		seen[b] = true
		for _, s := range b.Succs {
			if !seen[s] && !isBackEdge(b, s) {
				dfs(s)
			}
		}
		post = append(post, b)
	}
	dfs(fn.Blocks[0])
	for i, j := 0, len(post)-1; i < j; i, j = i+1, j-1 {
		post[i], post[j] = post[j], post[i]
	}
	return post
}

// ---------------------------------------------------------------------------
// running a function body

// runBody executes fn with the given parameter terms from the entry state; returns the merged exit state
// and result terms. Obligations are collected in ex.obls.
func (ex *Exec) runBody(f *frame, entry *State, params []Term) {
	fn := f.fn
	sc := ex.sc
	f.entry = entry.clone()
	f.params = params
	for i, p := range fn.Params {
		f.vals[p] = params[i]
	}
	f.loopInfo = findLoops(fn)
	order := topoOrder(fn)
	out := map[*ssa.BasicBlock]*State{}
	type ret struct {
		st   *State
		vals []Term
		pos  token.Pos
	}
	var rets []ret

	for _, b := range order {
		var st *State
		if b.Index == 0 {
			st = entry.clone()
			st.defers = nil
		} else {
			// merge forward predecessors
			type edge struct {
				cond Term
				st   *State
				pred *ssa.BasicBlock
			}
			var edges []edge
			for _, p := range b.Preds {
				if isBackEdge(p, b) {
					continue
				}
				ps := out[p]
				if ps == nil {
					continue
				}
				c := ps.reach
				if iff, ok := p.Instrs[len(p.Instrs)-1].(*ssa.If); ok {
					cv := f.val(iff.Cond)
					if p.Succs[0] == b && p.Succs[1] == b {
						// both branches
					} else if p.Succs[0] == b {
						c = and(c, cv)
					} else {
						c = and(c, not(cv))
					}
				}
				edges = append(edges, edge{c, ps, p})
			}
			if len(edges) == 0 {
				continue // unreachable (e.g. recover block)
			}
			st = &State{heap: map[string]Term{}}
			var conds []Term
			for _, e := range edges {
				conds = append(conds, e.cond)
			}
			st.reach = sc.define(sc.freshName(f.pfx+"reach:"+fmt.Sprint(b.Index)), or(conds...))
			// name edge conditions
			ecs := make([]Term, len(edges))
			for i, e := range edges {
				if len(edges) == 1 {
					ecs[i] = tTrue
				} else {
					ecs[i] = sc.define(sc.freshName(f.pfx+"edge"), e.cond)
				}
			}
			// heap merge
			keys := map[string]bool{}
			for _, e := range edges {
				for k := range e.st.heap {
					keys[k] = true
				}
			}
			for _, k := range sortedKeys(keys) {
				sort := ex.V.compSorts[k]
				var cur Term
				same := true
				for i := len(edges) - 1; i >= 0; i-- {
					hv, ok := edges[i].st.heap[k]
					if !ok {
						hv = sc.declare("pre:"+k, sort)
					}
					if i == len(edges)-1 {
						cur = hv
					} else {
						if hv.S != cur.S {
							same = false
						}
						cur = ite(ecs[i], hv, cur)
					}
				}
				if same {
					st.heap[k] = cur
				} else {
					st.heap[k] = sc.define(sc.freshName("m:"+k), cur)
				}
			}
			// defers: take the longest list (defers inside branches carry their guards)
			for _, e := range edges {
				if len(e.st.defers) > len(st.defers) {
					st.defers = append([]deferred(nil), e.st.defers...)
				}
			}
			// phis
			li := f.loopInfo[b]
			for _, ins := range b.Instrs {
				phi, ok := ins.(*ssa.Phi)
				if !ok {
					break
				}
				if li != nil {
					continue // handled below (havoc)
				}
				var cur Term
				k := 0
				for i, p := range b.Preds {
					var ei = -1
					for j, e := range edges {
						if e.pred == p {
							ei = j
						}
					}
					if ei < 0 {
						continue
					}
					v := f.val(phi.Edges[i])
					if k == 0 {
						cur = v
					} else {
						cur = ite(ecs[ei], v, cur)
					}
					k++
				}
				f.vals[phi] = sc.define(f.name(phi), cur)
				f.phiLocs(phi)
			}
			if li != nil {
				ex.enterLoop(f, st, b, li, func(p *ssa.BasicBlock) (Term, bool) {
					for j, e := range edges {
						if e.pred == p {
							return ecs[j], true
						}
					}
					return tFalse, false
				})
			}
		}
		// instructions
		terminated := false
		for _, ins := range b.Instrs {
			if _, ok := ins.(*ssa.Phi); ok {
				continue
			}
			switch x := ins.(type) {
			case *ssa.Return:
				if f.contract != nil && !f.inline && len(f.contract.Sites) > 0 {
					ex.siteAsserts(f, st, b, ins)
				}
				var vs []Term
				for _, r := range x.Results {
					vs = append(vs, f.val(r))
				}
				rets = append(rets, ret{st, vs, x.Pos()})
				terminated = true
			case *ssa.Panic:
				ex.doPanic(f, st, x)
				terminated = true
			case *ssa.If, *ssa.Jump:
			default:
				if f.contract != nil && !f.inline && len(f.contract.Sites) > 0 {
					ex.siteAsserts(f, st, b, ins)
				} else if f.inline && f.contract == nil && f.outer != nil && !f.outer.inline && f.outer.contract != nil && f.callInstr != nil && shapeNewFuncs[funcName(f.fn)] {
					// statements that were extracted into a new private helper (new since the contracts were written,
					// without a contract of its own) keep the site assertions of the function they were taken from
					ex.siteAssertsIn(f.outer, f, st, b, ins)
				}
				ex.step(f, st, ins)
			}
		}
		if !terminated {
			out[b] = st
			// back edges: check invariants
			for _, s := range b.Succs {
				if isBackEdge(b, s) {
					c := st.reach
					if iff, ok := b.Instrs[len(b.Instrs)-1].(*ssa.If); ok {
						cv := f.val(iff.Cond)
						if b.Succs[0] == s && b.Succs[1] != s {
							c = and(c, cv)
						} else if b.Succs[1] == s && b.Succs[0] != s {
							c = and(c, not(cv))
						}
					}
					bs := st.clone()
					bs.reach = c
					ex.checkInvariants(f, bs, f.loopInfo[s], b, "step")
				}
			}
		}
	}
	// per-return postconditions
	if f.contract != nil && !f.inline && len(f.contract.EachRet) > 0 {
		for ri, r := range rets {
			saved := f.results
			f.results = r.vals
			env := ex.frameEnv(f, r.st, f.entry)
			env.goal = true
			for _, cl := range f.contract.EachRet {
				v, err := env.trans(cl.Expr)
				if err != nil {
					ex.oblige(f, r.st, "ensures", cl.Label+":does-not-attach", cl.Label, fn.Pos(), tFalse, "the contract no longer attaches to the code ("+err.Error()+"): "+cl.Text)
					continue
				}
				ex.oblige(f, r.st, "ensures", fmt.Sprintf("%s:return%d", cl.Label, ri+1), cl.Label, r.pos, v.t, fmt.Sprintf("postcondition at return #%d: %s", ri+1, cl.Text))
			}
			f.results = saved
		}
	}
	// merge returns
	if len(rets) == 0 {
		f.exit = &State{reach: tFalse, heap: map[string]Term{}}
		return
	}
	exit := &State{heap: map[string]Term{}}
	var conds []Term
	for _, r := range rets {
		conds = append(conds, r.st.reach)
	}
	exit.reach = sc.define(sc.freshName(f.pfx+"reach:exit"), or(conds...))
	keys := map[string]bool{}
	for _, r := range rets {
		for k := range r.st.heap {
			keys[k] = true
		}
	}
	for _, k := range sortedKeys(keys) {
		sort := ex.V.compSorts[k]
		var cur Term
		same := true
		for i := len(rets) - 1; i >= 0; i-- {
			hv, ok := rets[i].st.heap[k]
			if !ok {
				hv = sc.declare("pre:"+k, sort)
			}
			if i == len(rets)-1 {
				cur = hv
			} else {
				if hv.S != cur.S {
					same = false
				}
				cur = ite(rets[i].st.reach, hv, cur)
			}
		}
		if same {
			exit.heap[k] = cur
		} else {
			exit.heap[k] = sc.define(sc.freshName("x:"+k), cur)
		}
	}
	nres := fn.Signature.Results().Len()
	f.results = make([]Term, nres)
	for j := 0; j < nres; j++ {
		var cur Term
		for i := len(rets) - 1; i >= 0; i-- {
			if i == len(rets)-1 {
				cur = rets[i].vals[j]
			} else {
				cur = ite(rets[i].st.reach, rets[i].vals[j], cur)
			}
		}
		f.results[j] = sc.define(sc.freshName(f.pfx+"result"), cur)
	}
	f.exit = exit
}

// siteAsserts: obligations attached (by source text) before an instruction.
func (ex *Exec) siteAsserts(f *frame, st *State, b *ssa.BasicBlock, ins ssa.Instruction) {
	ex.siteAssertsIn(f, nil, st, b, ins)
}

// siteAssertsIn: the site clauses of frame f before instruction ins, which is an instruction of f itself (inner == nil) or of
// a helper inlined into f (inner): names are resolved in f at the call of the helper, callarg(i) in the helper.
func (ex *Exec) siteAssertsIn(f, inner *frame, st *State, b *ssa.BasicBlock, ins ssa.Instruction) {
	if inner != nil {
		if _, isRet := ins.(*ssa.Return); isRet {
			return
		}
	}
	switch ins.(type) {
	case *ssa.Call, *ssa.MapUpdate, *ssa.Go, *ssa.Defer, *ssa.Return:
	default:
		return
	}
	if !ins.Pos().IsValid() {
		return
	}
	for _, sa := range f.contract.Sites {
		if !ex.V.siteMatches(sa, ins) {
			continue
		}
		sa.Hits++
		if sa.alt == ins {
			ex.note("assertion site \"" + sa.Site + "\" no longer matches the source text; re-attached to the only call of " + calleeName(ins) + " in " + funcName(f.fn))
		}
		env := ex.frameEnv(f, st, f.entry)
		env.siteBlock = b
		env.siteInstr = ins
		casePos := ins.Pos()
		if inner != nil {
			env.siteBlock = inner.callBlock
			env.siteInstr = inner.callInstr
			env.argFrame = inner
			env.argInstr = ins
			casePos = inner.callInstr.Pos()
			ex.note("assertion site \"" + sa.Site + "\" of " + funcName(f.fn) + " found inside the new helper " + funcName(inner.fn) + " (inlined)")
		}
		if sa.Mark {
			// mark[name]: no obligation; the function-local flag "reached this site with the expression true" is set
			v, err := env.trans(sa.Expr)
			if err != nil {
				ex.oblige(f, st, "assert", "mark:"+sa.Label+":does-not-attach", "", ins.Pos(), tFalse, "the contract no longer attaches to the code ("+err.Error()+"): "+sa.Text)
				continue
			}
			ex.set(st, markComp(f.fn, sa.Label), v.t)
			continue
		}
		env.goal = true
		v, err := env.trans(sa.Expr)
		if err != nil {
			ex.oblige(f, st, "assert", sa.Label+":does-not-attach", sa.Label, ins.Pos(), tFalse, "the contract no longer attaches to the code ("+err.Error()+"): "+sa.Text)
			continue
		}
		detail := sa.Label
		if cs := ex.V.enclosingCase(casePos); cs != "" {
			detail += "@" + cs
		}
		ex.oblige(f, st, "assert", detail, sa.Label, ins.Pos(), v.t, "assertion before "+sa.Site+": "+sa.Text)
	}
}

// siteMatches: does a site clause attach before this instruction?
func (V *Verifier) siteMatches(sa *SiteAssert, ins ssa.Instruction) bool {
	if V.siteMatches1(sa.Site, ins) || (sa.AltSite != "" && V.siteMatches1(sa.AltSite, ins)) {
		return true
	}
	return sa.alt != nil && sa.alt == ins
}

func (V *Verifier) siteMatches1(site string, ins ssa.Instruction) bool {
	switch ins.(type) {
	case *ssa.Call, *ssa.MapUpdate, *ssa.Go, *ssa.Defer, *ssa.Return:
	default:
		return false
	}
	if !ins.Pos().IsValid() {
		return false
	}
	if name, ok := strings.CutPrefix(site, "call:"); ok {
		// at "call:<name>": before every call (go, defer) of a function or method of that name;
		// at "call:<name>@<case>": only inside that case of a (type) switch
		name, cs, inCase := strings.Cut(name, "@")
		return calleeName(ins) == name && (!inCase || V.enclosingCase(ins.Pos()) == cs)
	}
	return strings.HasPrefix(V.srcText(ins, ins.Pos()), site)
}

// resolveSites: a site quoted by source text that matches nothing any more (a renamed local in the argument list, a
// reformatted call) is re-attached to the call of the same function or method when the body has exactly one such call.
func (V *Verifier) resolveSites(fn *ssa.Function, c *Contract) {
	for _, sa := range c.Sites {
		sa.alt = nil
		if strings.HasPrefix(sa.Site, "call:") {
			continue
		}
		name := siteCalleeName(sa.Site)
		if sa.AltSite != "" {
			if n2 := siteCalleeName(sa.AltSite); n2 != "" {
				name = n2
			}
		}
		found := false
		var cands []ssa.Instruction
		for _, b := range fn.Blocks {
			for _, ins := range b.Instrs {
				if V.siteMatches(sa, ins) {
					found = true
				}
				if name != "" && calleeName(ins) == name {
					cands = append(cands, ins)
				}
			}
		}
		if !found && len(cands) == 1 {
			sa.alt = cands[0]
		}
	}
}

// siteCalleeName: the function or method name of a site given as the source text of a call ("s.Store.Remove(ctx, ..." -> Remove).
func siteCalleeName(site string) string {
	i := strings.Index(site, "(")
	if i <= 0 {
		return ""
	}
	j := i
	for j > 0 && (site[j-1] == '_' || site[j-1] >= '0' && site[j-1] <= '9' || site[j-1] >= 'a' && site[j-1] <= 'z' || site[j-1] >= 'A' && site[j-1] <= 'Z') {
		j--
	}
	name := site[j:i]
	if name == "" || name == "func" {
		return ""
	}
	return name
}

// markComp: the state component of a mark (function-local: no call, loop cut or frame condition touches it except the
// loop cut of a loop that contains the marked site).
func markComp(fn *ssa.Function, name string) string { return "S:" + funcName(fn) + ":" + name }

// initMarks: at the entry of a function (verified or inlined) none of its marks is set.
func (ex *Exec) initMarks(f *frame, st *State) {
	if f.contract == nil {
		return
	}
	for _, sa := range f.contract.Sites {
		if sa.Mark {
			ex.regComp(markComp(f.fn, sa.Label), SBool)
			ex.set(st, markComp(f.fn, sa.Label), tFalse)
		}
	}
}

// calleeName: the name of the function or method an instruction calls ("" when it calls a function value).
func calleeName(ins ssa.Instruction) string {
	ci, ok := ins.(ssa.CallInstruction)
	if !ok {
		return ""
	}
	c := ci.Common()
	if c.IsInvoke() {
		return c.Method.Name()
	}
	if fn := c.StaticCallee(); fn != nil {
		return fn.Name()
	}
	if b, ok := c.Value.(*ssa.Builtin); ok {
		return b.Name()
	}
	return ""
}

func (f *frame) phiLocs(phi *ssa.Phi) {
	// propagate a location/closure descriptor if all edges agree (common for pointer phis)
	if _, ok := phi.Type().Underlying().(*types.Pointer); !ok {
		return
	}
}

// enterLoop: at a loop header, check invariants on entry edges, havoc what the loop modifies, assume invariants.
func (ex *Exec) enterLoop(f *frame, st *State, h *ssa.BasicBlock, li *loopInfo, edgeCond func(*ssa.BasicBlock) (Term, bool)) {
	sc := ex.sc
	// entry values of phis (merged over forward edges) for the init check
	entryVals := map[*ssa.Phi]Term{}
	for _, ins := range h.Instrs {
		phi, ok := ins.(*ssa.Phi)
		if !ok {
			break
		}
		var cur Term
		k := 0
		for i, p := range h.Preds {
			ec, ok := edgeCond(p)
			if !ok {
				continue
			}
			v := f.val(phi.Edges[i])
			if k == 0 {
				cur = v
			} else {
				cur = ite(ec, v, cur)
			}
			k++
		}
		entryVals[phi] = cur
	}
	// init check with phis bound to entry values
	saved := map[*ssa.Phi]Term{}
	for phi, v := range entryVals {
		if old, ok := f.vals[phi]; ok {
			saved[phi] = old
		}
		f.vals[phi] = v
	}
	ex.checkInvariants(f, st, li, h, "init")
	// havoc
	for _, ins := range h.Instrs {
		phi, ok := ins.(*ssa.Phi)
		if !ok {
			break
		}
		nv := sc.declare(f.name(phi), sc.sortOf(phi.Type()))
		f.vals[phi] = nv
		ex.wellTyped(st, nv, phi.Type())
		if b, ok := phi.Type().Underlying().(*types.Basic); ok && b.Info()&types.IsInteger != 0 && !f.inline {
			// loop indices are instantiation candidates for the quantified assumptions made so far
			ex.addCandidate(nv, phi.Type())
			ex.addCandidate(app(SInt, "+", nv, intLit(1)), phi.Type())
		}
		// automatic monotonicity fact: phi = [init, phi + k] with k > 0  ==> phi >= init
		for i, p := range h.Preds {
			if !isBackEdge(p, h) {
				continue
			}
			if bo, ok := phi.Edges[i].(*ssa.BinOp); ok && bo.Op == token.ADD {
				if bo.X == phi {
					if c, ok := bo.Y.(*ssa.Const); ok && c.Value != nil && constant.Sign(c.Value) > 0 && sc.sortOf(phi.Type()) == SInt {
						ex.assume(st, app(SBool, ">=", nv, entryVals[phi]))
					}
				}
			}
		}
	}
	loopEntryHeap := map[string]Term{}
	for k, v := range st.heap {
		loopEntryHeap[k] = v
	}
	mods := ex.V.loopMods(f.fn, li)
	if os.Getenv("GOVC_DEBUG_LOOP") != "" {
		fmt.Fprintf(os.Stderr, "loop in %s (inline=%v): mods=%v\n", f.fn, f.inline, mods)
	}
	for _, c := range mods {
		if c == "*" {
			for _, k := range sortedKeys(ex.V.compSorts) {
				if k != compAlloc && !strings.HasPrefix(k, "LK:") && !(strings.HasPrefix(k, "LA:") || strings.HasPrefix(k, "LH:")) && !strings.HasPrefix(k, "G:") && !strings.HasPrefix(k, "S:") {
					ex.loopHavoc(st, k)
				}
			}
			ex.havocAlloc(st)
			continue
		}
		if c == compAlloc {
			ex.havocAlloc(st)
			continue
		}
		ex.loopHavoc(st, c)
	}
	// private cells that the loop body never stores to keep their value across the cut
	for _, pa := range ex.privateAllocs {
		if pa.f != f {
			continue
		}
		stored := false
		if refs := pa.alloc.Referrers(); refs != nil {
			for _, ins := range *refs {
				if sto, ok := ins.(*ssa.Store); ok && sto.Addr == pa.alloc && li.body[sto.Block()] {
					stored = true
				}
			}
		}
		// the address handed to a call inside the loop (a decoder filling the variable, say) is a write too
		if !stored && addrPassedToCallIn(pa.alloc, li.body, 0) {
			stored = true
		}
		if stored {
			continue
		}
		l := f.locOf(pa.alloc)
		if l.kind != "obj" {
			continue
		}
		var leaves []*Loc
		var walk func(x *Loc)
		walk = func(x *Loc) {
			if s, ok := x.typ.Underlying().(*types.Struct); ok && x.root != nil {
				for i := 0; i < s.NumFields(); i++ {
					walk(ex.fieldLoc(x, i))
				}
				return
			}
			leaves = append(leaves, x)
		}
		walk(l)
		for _, lf := range leaves {
			var comp string
			if lf.root == nil {
				comp = compCell(lf.typ)
			} else {
				comp = compField(lf.root, lf.path)
			}
			sort, ok := ex.compSort(comp)
			if !ok {
				continue
			}
			cur, has := st.heap[comp]
			if !has {
				continue
			}
			entryVal := sel(ex.getFrom(loopEntryHeap, comp, sort), pa.ref)
			st.heap[comp] = ex.sc.define(ex.sc.freshName("lp:"+comp), store(cur, pa.ref, entryVal))
		}
	}
	// the clock only moves forward across iterations
	if _, ok := ex.compSort("G:clock"); ok {
		old := ex.get(st, "G:clock", SInt)
		nw := ex.sc.freshConst("lhv:clock", SInt)
		st.heap["G:clock"] = nw
		ex.sc.assert(app(SBool, ">=", nw, old))
	}
	ex.assumeInvariants(f, st, li)
}

// havocAlloc: allocation only grows.
func (ex *Exec) havocAlloc(st *State) {
	old := ex.get(st, compAlloc, SInt)
	nw := ex.sc.freshConst("hv:alloc", SInt)
	st.heap[compAlloc] = nw
	ex.sc.assert(app(SBool, ">=", nw, old))
}

func (ex *Exec) doPanic(f *frame, st *State, p *ssa.Panic) {
	detail := "panic"
	if mi, ok := p.X.(*ssa.MakeInterface); ok {
		if c, ok := mi.X.(*ssa.Const); ok && c.Value != nil && c.Value.Kind() == constant.String {
			detail = constant.StringVal(c.Value)
		}
	}
	if len(detail) > 40 {
		detail = detail[:40]
	}
	if !f.sweepOn() {
		// inside an inlined callee: the callee's own sweep carries this obligation
		return
	}
	ex.oblige(f, st, "panic", detail, "", p.Pos(), tFalse, "explicit panic reachable")
}

// addrPassedToCallIn: is v (the address of a local cell, or something derived from it: a field address, an interface
// holding it) an argument of a call / go / defer instruction in one of the given blocks?
func addrPassedToCallIn(v ssa.Value, body map[*ssa.BasicBlock]bool, depth int) bool {
	if depth > 4 {
		return true
	}
	refs := v.Referrers()
	if refs == nil {
		return false
	}
	for _, ins := range *refs {
		switch u := ins.(type) {
		case ssa.CallInstruction:
			if body[u.Block()] {
				for _, a := range u.Common().Args {
					if a == v {
						return true
					}
				}
				if u.Common().Value == v {
					return true
				}
			}
		case *ssa.MakeInterface:
			if addrPassedToCallIn(u, body, depth+1) {
				return true
			}
		case *ssa.FieldAddr:
			if addrPassedToCallIn(u, body, depth+1) {
				return true
			}
		case *ssa.IndexAddr:
			if addrPassedToCallIn(u, body, depth+1) {
				return true
			}
		case *ssa.ChangeType:
			if addrPassedToCallIn(u, body, depth+1) {
				return true
			}
		case *ssa.Slice:
			if addrPassedToCallIn(u, body, depth+1) {
				return true
			}
		}
	}
	return false
}
