package main

import (
	"fmt"
	"go/token"
	"go/types"
	"strings"

	"golang.org/x/tools/go/ssa"
)

func (ex *Exec) exprText(f *frame, pos token.Pos, fallback string) string {
	return fallback
}

func (f *frame) def(v ssa.Value, t Term) Term {
	c := f.ex.sc.define(f.name(v), t)
	f.vals[v] = c
	return c
}

func (f *frame) fresh(v ssa.Value) Term {
	c := f.ex.sc.declare(f.name(v), f.ex.sc.sortOf(v.Type()))
	f.vals[v] = c
	return c
}

// sweepOn reports whether zero-annotation safety obligations are generated in this frame.
func (f *frame) sweepOn() bool { return !f.inline }

func (ex *Exec) step(f *frame, st *State, ins ssa.Instruction) {
	sc := ex.sc
	switch x := ins.(type) {
	case *ssa.DebugRef:
	case *ssa.Alloc:
		r := ex.allocRef(st, f.name(x))
		f.vals[x] = r
		elem := x.Type().Underlying().(*types.Pointer).Elem()
		l := &Loc{kind: "obj", typ: elem, ref: r}
		if _, ok := elem.Underlying().(*types.Struct); ok {
			l.root = elem
		}
		f.locs[x] = l
		if at, ok := elem.Underlying().(*types.Array); ok {
			// arrays live in the element heap so that slices of them share storage
			f.locs[x] = &Loc{kind: "arr", typ: elem, ref: r, elemT: at.Elem()}
		} else {
			ex.storeLoc(st, l, sc.zero(elem))
			if !escapes(x) && len(ex.private) < 24 {
				ex.private = append(ex.private, r)
				ex.privateAllocs = append(ex.privateAllocs, privAlloc{x, r, f})
			}
		}
	case *ssa.BinOp:
		f.def(x, ex.binop(f, st, x))
	case *ssa.UnOp:
		ex.unop(f, st, x)
	case *ssa.Phi:
	case *ssa.Call:
		ex.call(f, st, x, &x.Call, x)
	case *ssa.Go:
		ex.spawn(f, st, x)
	case *ssa.Defer:
		d := deferred{guard: st.reach, call: &x.Call, instr: x}
		for _, a := range x.Call.Args {
			d.args = append(d.args, f.val(a))
		}
		d.fnval = f.val(x.Call.Value)
		st.defers = append(st.defers, d)
	case *ssa.RunDefers:
		for i := len(st.defers) - 1; i >= 0; i-- {
			d := st.defers[i]
			ex.runDeferred(f, st, d)
		}
		st.defers = nil
	case *ssa.ChangeType:
		f.vals[x] = f.val(x.X)
		if l, ok := f.locs[x.X]; ok {
			f.locs[x] = l
		}
		if c, ok := f.clos[x.X]; ok {
			f.clos[x] = c
		}
		if o, ok := f.origin[x.X]; ok {
			f.origin[x] = o
		}
	case *ssa.ChangeInterface:
		f.vals[x] = f.val(x.X)
	case *ssa.Convert:
		f.def(x, ex.convert(f, st, x.X, x.Type()))
	case *ssa.MultiConvert:
		f.fresh(x)
		ex.note("unsupported: MultiConvert")
	case *ssa.MakeInterface:
		f.def(x, ex.box(st, f.val(x.X), x.X.Type()))
		if c, ok := f.clos[x.X]; ok {
			f.clos[x] = c
		}
	case *ssa.TypeAssert:
		ex.typeAssert(f, st, x)
	case *ssa.Extract:
		tup := f.tuples[x.Tuple]
		if tup == nil {
			f.fresh(x)
		} else {
			f.vals[x] = tup[x.Index]
			if x.Index == 0 {
				if o, ok := f.origin[x.Tuple]; ok {
					f.origin[x] = o
				}
			}
		}
	case *ssa.Field:
		ss := sc.structOf(x.X.Type())
		f.def(x, app(ss.sorts[x.Field], ss.fields[x.Field], f.val(x.X)))
	case *ssa.FieldAddr:
		base := f.locOf(x.X)
		if f.sweepOn() && ex.mayBeNil(f, x.X) {
			ex.oblige(f, st, "nilderef", ex.V.srcText(x.X, x.Pos()), "", x.Pos(), not(eq(f.val(x.X), intLit(0))), "field access through possibly nil pointer")
		}
		f.locs[x] = ex.fieldLoc(base, x.Field)
		f.vals[x] = sc.freshConst(f.name(x)+"&", SInt)
	case *ssa.IndexAddr:
		ex.indexAddr(f, st, x)
	case *ssa.Index:
		// array value or string indexing
		xv := f.val(x.X)
		iv := f.val(x.Index)
		switch u := x.X.Type().Underlying().(type) {
		case *types.Array:
			if f.sweepOn() {
				ex.oblige(f, st, "index", ex.V.srcText(x, x.Pos()), "", x.Pos(), and(app(SBool, "<=", intLit(0), iv), app(SBool, "<", iv, intLit(u.Len()))), "array index in range")
			}
			f.def(x, sel(xv, iv))
		case *types.Basic:
			// string indexing
			if f.sweepOn() {
				ex.oblige(f, st, "index", ex.V.srcText(x, x.Pos()), "", x.Pos(), and(app(SBool, "<=", intLit(0), iv), app(SBool, "<", iv, app(SInt, "str.len", xv))), "string index in range")
			}
			f.def(x, app(SInt, "str.to_code", app(SStr, "str.at", xv, iv)))
		default:
			f.fresh(x)
		}
	case *ssa.Lookup:
		ex.lookup(f, st, x)
	case *ssa.MapUpdate:
		m := x.Map.Type().Underlying().(*types.Map)
		mv := f.val(x.Map)
		if f.sweepOn() && ex.mayBeNil(f, x.Map) {
			ex.oblige(f, st, "nilmap", ex.V.srcText(x.Map, x.Pos()), "", x.Pos(), not(eq(mv, intLit(0))), "assignment to entry in possibly nil map")
		}
		// a store into a nil map panics: the path continues only with a map
		ex.assume(st, not(eq(mv, intLit(0))))
		ex.lockCheckMap(f, st, x.Map, true, x.Pos())
		ex.mapStore(st, m, mv, f.val(x.Key), f.val(x.Value))
	case *ssa.MakeMap:
		m := x.Type().Underlying().(*types.Map)
		r := ex.allocRef(st, f.name(x))
		f.vals[x] = r
		ks := sc.sortOf(m.Key())
		md := ex.get(st, compMapDom(m), arraySort(SInt, arraySort(ks, SBool)))
		ex.set(st, compMapDom(m), store(md, r, Term{fmt.Sprintf("((as const %s) false)", arraySort(ks, SBool)), arraySort(ks, SBool)}))
		ml := ex.get(st, compMapLen(m), arraySort(SInt, SInt))
		ex.set(st, compMapLen(m), store(ml, r, intLit(0)))
	case *ssa.MakeSlice:
		el := x.Type().Underlying().(*types.Slice).Elem()
		r := ex.allocRef(st, f.name(x))
		n := f.val(x.Len)
		if f.sweepOn() {
			if _, isConst := x.Len.(*ssa.Const); !isConst {
				ex.oblige(f, st, "makeslice", ex.V.srcText(x, x.Pos()), "", x.Pos(), app(SBool, ">=", n, intLit(0)), "make: len non-negative")
			}
		}
		es := sc.sortOf(el)
		if isSimpleSort(es) {
			comp := compElem(el)
			arr := ex.get(st, comp, arraySort(SInt, arraySort(SInt, es)))
			ex.set(st, comp, store(arr, r, Term{fmt.Sprintf("((as const %s) %s)", arraySort(SInt, es), zeroOfSort(es).S), arraySort(SInt, es)}))
		}
		f.def(x, app(SSlice, "mkSlice", r, intLit(0), n))
	case *ssa.MakeChan:
		f.vals[x] = ex.allocRef(st, f.name(x))
	case *ssa.MakeClosure:
		r := ex.allocRef(st, f.name(x))
		f.vals[x] = r
		fn := x.Fn.(*ssa.Function)
		f.clos[x] = &closureInfo{fn: fn, bindings: x.Bindings}
		ex.sc.assert(eq(app(SInt, ex.sc.declareFun("funcOf", []string{SInt}, SInt), r), ex.funcRef(fn)))
	case *ssa.Slice:
		ex.slice(f, st, x)
	case *ssa.Store:
		l := f.locOf(x.Addr)
		ex.lockCheckLoc(f, st, l, true, x.Pos())
		if l.kind == "arr" {
			ex.note("unsupported: whole-array store")
			return
		}
		ex.storeLoc(st, l, f.val(x.Val))
	case *ssa.Range:
		f.vals[x] = intLit(0)
		f.rangeMap[x] = x.X
	case *ssa.Next:
		ex.next(f, st, x)
	case *ssa.Send:
		ex.note("channel send treated as no-op (no blocking semantics)")
	case *ssa.Select:
		ex.note("select treated as havoc (no channel semantics)")
		var tup []Term
		tt := x.Type().(*types.Tuple)
		for i := 0; i < tt.Len(); i++ {
			c := sc.freshConst(f.name(x)+fmt.Sprintf("#%d", i), sc.sortOf(tt.At(i).Type()))
			tup = append(tup, c)
		}
		ex.assume(st, and(app(SBool, ">=", tup[0], intLit(-1)), app(SBool, "<", tup[0], intLit(int64(len(x.States))))))
		if x.Blocking {
			ex.assume(st, app(SBool, ">=", tup[0], intLit(0)))
		}
		f.tuples[x] = tup
	case *ssa.SliceToArrayPointer:
		f.fresh(x)
		ex.note("unsupported: SliceToArrayPointer")
	default:
		panic(fmt.Sprintf("step: unhandled instruction %T in %s", ins, f.fn))
	}
}

// mayBeNil: nil-ness obligations are generated only for values whose origin makes nil a live possibility:
// call results, map lookups, comma-ok type assertions, nil constants (and phis / conversions of those).
// Values loaded from struct fields, globals and parameters are covered by the standing data-structure assumption.
func (ex *Exec) mayBeNil(f *frame, v ssa.Value) bool {
	return nilOrigin(v, 0)
}

func nilOrigin(v ssa.Value, depth int) bool {
	if depth > 6 {
		return false
	}
	switch x := v.(type) {
	case *ssa.Const:
		return x.Value == nil
	case *ssa.Call:
		if _, isB := x.Call.Value.(*ssa.Builtin); isB {
			return false
		}
		return true
	case *ssa.Lookup:
		_, isMap := x.X.Type().Underlying().(*types.Map)
		return isMap
	case *ssa.Extract:
		switch t := x.Tuple.(type) {
		case *ssa.Call:
			return true
		case *ssa.Lookup:
			return x.Index == 0
		case *ssa.TypeAssert:
			return x.Index == 0
		case *ssa.UnOp:
			_ = t
			return false
		}
		return false
	case *ssa.Phi:
		for _, e := range x.Edges {
			if e != v && nilOrigin(e, depth+1) {
				return true
			}
		}
		return false
	case *ssa.ChangeType:
		return nilOrigin(x.X, depth+1)
	case *ssa.ChangeInterface:
		return nilOrigin(x.X, depth+1)
	case *ssa.MakeInterface:
		return false
	}
	return false
}

// mulOverflow: integers are mathematical in the conditions; a unit conversion (a 64-bit signed value times a constant of at
// least a thousand - seconds to nanoseconds and the like) is where that assumption is most easily false, so it carries
// the side condition that the product fits in 64 bits.
func (ex *Exec) mulOverflow(f *frame, st *State, x *ssa.BinOp, a, b Term) {
	bt, ok := x.Type().Underlying().(*types.Basic)
	if !ok || (bt.Kind() != types.Int && bt.Kind() != types.Int64) {
		return
	}
	big := func(v ssa.Value) bool {
		c, ok := v.(*ssa.Const)
		if !ok || c.Value == nil {
			return false
		}
		k, ok := constInt(c)
		return ok && (k >= 1000 || k <= -1000)
	}
	_, xc := x.X.(*ssa.Const)
	_, yc := x.Y.(*ssa.Const)
	if xc == yc || !(big(x.X) || big(x.Y)) {
		return
	}
	p := app(SInt, "*", a, b)
	fits := and(app(SBool, "<=", Term{"(- 9223372036854775808)", SInt}, p), app(SBool, "<=", p, Term{"9223372036854775807", SInt}))
	ex.oblige(f, st, "overflow", ex.V.srcText(x, x.Pos()), "", x.Pos(), fits, "the product of a unit conversion fits in 64 bits (integers are mathematical in the other conditions)")
}

func (ex *Exec) binop(f *frame, st *State, x *ssa.BinOp) Term {
	sc := ex.sc
	a, b := f.val(x.X), f.val(x.Y)
	s := a.Sort
	cmp := func(op string) Term { return app(SBool, op, a, b) }
	switch x.Op {
	case token.ADD:
		if s == SStr {
			return app(SStr, "str.++", a, b)
		}
		return app(s, "+", a, b)
	case token.SUB:
		return app(s, "-", a, b)
	case token.MUL:
		if s == SInt && f.sweepOn() {
			ex.mulOverflow(f, st, x, a, b)
		}
		return app(s, "*", a, b)
	case token.QUO:
		if s == SReal {
			return app(SReal, "/", a, b)
		}
		if f.sweepOn() {
			if _, isConst := x.Y.(*ssa.Const); !isConst {
				ex.oblige(f, st, "divzero", ex.V.srcText(x, x.Pos()), "", x.Pos(), not(eq(b, intLit(0))), "integer division by zero")
			}
		}
		return goDiv(a, b)
	case token.REM:
		if f.sweepOn() {
			if _, isConst := x.Y.(*ssa.Const); !isConst {
				ex.oblige(f, st, "divzero", ex.V.srcText(x, x.Pos()), "", x.Pos(), not(eq(b, intLit(0))), "integer remainder by zero")
			}
		}
		return app(SInt, "-", a, app(SInt, "*", b, goDiv(a, b)))
	case token.EQL:
		return ex.equal(x.X.Type(), a, b)
	case token.NEQ:
		return not(ex.equal(x.X.Type(), a, b))
	case token.LSS:
		if s == SStr {
			return app(SBool, "str.<", a, b)
		}
		return cmp("<")
	case token.LEQ:
		if s == SStr {
			return app(SBool, "str.<=", a, b)
		}
		return cmp("<=")
	case token.GTR:
		if s == SStr {
			return app(SBool, "str.<", b, a)
		}
		return cmp(">")
	case token.GEQ:
		if s == SStr {
			return app(SBool, "str.<=", b, a)
		}
		return cmp(">=")
	case token.SHL:
		if c, ok := x.Y.(*ssa.Const); ok && c.Value != nil {
			if k, ok2 := constInt(c); ok2 && k >= 0 && k < 62 {
				return app(SInt, "*", a, intLit(1<<uint(k)))
			}
		}
	case token.SHR:
		if c, ok := x.Y.(*ssa.Const); ok && c.Value != nil {
			if k, ok2 := constInt(c); ok2 && k >= 0 && k < 62 {
				return app(SInt, "div", a, intLit(1<<uint(k)))
			}
		}
	case token.AND:
		if s == SBool {
			return and(a, b)
		}
	case token.OR:
		if s == SBool {
			return or(a, b)
		}
	}
	// bit operations etc.: uninterpreted
	fn := sc.declareFun("bop"+x.Op.String(), []string{a.Sort, b.Sort}, sc.sortOf(x.Type()))
	return app(sc.sortOf(x.Type()), fn, a, b)
}

func constInt(c *ssa.Const) (int64, bool) {
	if c.Value == nil {
		return 0, false
	}
	t := ssa.NewConst(c.Value, c.Type())
	if !t.IsNil() {
		defer func() { recover() }()
		return t.Int64(), true
	}
	return 0, false
}

func goDiv(a, b Term) Term {
	return ite(app(SBool, ">=", a, intLit(0)), app(SInt, "div", a, b), app(SInt, "-", app(SInt, "div", app(SInt, "-", a), b)))
}

func (ex *Exec) equal(t types.Type, a, b Term) Term {
	if _, ok := t.Underlying().(*types.Slice); ok {
		// only comparison with nil is legal
		if a.S == "nilSlice" {
			return eq(app(SInt, "sarr", b), intLit(0))
		}
		return eq(app(SInt, "sarr", a), intLit(0))
	}
	if a.Sort != b.Sort {
		// interface vs nil constant of other shape
		if a.Sort == SVal && b.S == "VNil" || b.Sort == SVal && a.S == "VNil" {
			return eq(a, b)
		}
		panic(fmt.Sprintf("equal: sorts differ %s %s (%s, %s)", a.Sort, b.Sort, a.S, b.S))
	}
	return eq(a, b)
}

func (ex *Exec) unop(f *frame, st *State, x *ssa.UnOp) {
	sc := ex.sc
	switch x.Op {
	case token.NOT:
		f.def(x, not(f.val(x.X)))
	case token.SUB:
		f.def(x, app(f.val(x.X).Sort, "-", f.val(x.X)))
	case token.MUL:
		l := f.locOf(x.X)
		if f.sweepOn() && ex.mayBeNil(f, x.X) && l.kind == "obj" && l.path == "" {
			ex.oblige(f, st, "nilderef", ex.V.srcText(x.X, x.Pos()), "", x.Pos(), not(eq(f.val(x.X), intLit(0))), "load through possibly nil pointer")
		}
		if l.kind == "arr" {
			f.fresh(x)
			return
		}
		ex.lockCheckLoc(f, st, l, false, x.Pos())
		v := f.def(x, ex.load(st, l))
		ex.wellTyped(st, v, x.Type())
		if g := ex.guardedOrigin(l); g != "" {
			f.origin[x] = g + "@" + l.ref.S
		}
	case token.ARROW:
		ex.note("channel receive treated as havoc (no blocking semantics)")
		if x.CommaOk {
			tt := x.Type().(*types.Tuple)
			f.tuples[x] = []Term{sc.freshConst(f.name(x)+"#0", sc.sortOf(tt.At(0).Type())), sc.freshConst(f.name(x)+"#1", SBool)}
		} else {
			f.fresh(x)
		}
	case token.XOR:
		fn := sc.declareFun("bnot", []string{SInt}, SInt)
		f.def(x, app(SInt, fn, f.val(x.X)))
	default:
		f.fresh(x)
	}
}

func (ex *Exec) convert(f *frame, st *State, xv ssa.Value, to types.Type) Term {
	sc := ex.sc
	v := f.val(xv)
	from := xv.Type()
	fs, ts := sc.sortOf(from), sc.sortOf(to)
	switch {
	case fs == SInt && ts == SInt:
		// machine integers are mathematical (assumption); unsigned targets keep non-negativity unknown
		return v
	case fs == SInt && ts == SReal:
		return app(SReal, "to_real", v)
	case fs == SReal && ts == SInt:
		return ite(app(SBool, ">=", v, Term{"0.0", SReal}), app(SInt, "to_int", v), app(SInt, "-", app(SInt, "to_int", app(SReal, "-", v))))
	case fs == SReal && ts == SReal:
		return v
	case fs == SStr && ts == SStr:
		return v
	case fs == SStr && ts == SSlice:
		// []byte(s): fresh array whose contents spell s
		r := ex.allocRef(st, "bytes")
		el := to.Underlying().(*types.Slice).Elem()
		es := sc.sortOf(el)
		arr := ex.get(st, compElem(el), arraySort(SInt, arraySort(SInt, es)))
		if es == SInt {
			fn := sc.declareFun("strOfBytes", []string{arraySort(SInt, SInt), SInt, SInt}, SStr)
			ex.assume(st, eq(app(SStr, fn, sel(arr, r), intLit(0), app(SInt, "str.len", v)), v))
		}
		return app(SSlice, "mkSlice", r, intLit(0), app(SInt, "str.len", v))
	case fs == SSlice && ts == SStr:
		el := from.Underlying().(*types.Slice).Elem()
		es := sc.sortOf(el)
		if es == SInt {
			arr := ex.get(st, compElem(el), arraySort(SInt, arraySort(SInt, es)))
			fn := sc.declareFun("strOfBytes", []string{arraySort(SInt, SInt), SInt, SInt}, SStr)
			r := app(SStr, fn, sel(arr, app(SInt, "sarr", v)), app(SInt, "soff", v), app(SInt, "slen", v))
			return r
		}
	case fs == SInt && ts == SStr:
		return sc.freshConst("runestr", SStr)
	}
	if fs == ts {
		return v
	}
	ex.note(fmt.Sprintf("unsupported conversion %s -> %s (havoc)", typeStr(from), typeStr(to)))
	return sc.freshConst("conv", ts)
}

// box makes an interface value from a concrete one.
func (ex *Exec) box(st *State, v Term, t types.Type) Term {
	sc := ex.sc
	if _, isIface := t.Underlying().(*types.Interface); isIface {
		return v
	}
	tid := sc.typeID(t)
	ex.V.noteType(sc, t)
	switch sc.sortOf(t) {
	case SBool:
		return app(SVal, "VBool", tid, v)
	case SInt:
		if isPointerLike(t) || isFunc(t) {
			return app(SVal, "VRef", tid, v)
		}
		return app(SVal, "VInt", tid, v)
	case SReal:
		return app(SVal, "VReal", tid, v)
	case SStr:
		return app(SVal, "VStr", tid, v)
	case SSlice:
		return app(SVal, "VSlice", tid, v)
	}
	// struct / array: boxed behind a handle
	s := sc.sortOf(t)
	boxf := sc.declareFun("box:"+s, []string{s}, SInt)
	unboxf := sc.declareFun("unbox:"+s, []string{SInt}, s)
	h := app(SInt, boxf, v)
	ex.sc.assert(eq(app(s, unboxf, h), v))
	return app(SVal, "VBox", tid, h)
}

func isFunc(t types.Type) bool {
	_, ok := t.Underlying().(*types.Signature)
	return ok
}

// unboxAs gives (condition that v holds dynamic type t, payload)
func (ex *Exec) unboxAs(v Term, t types.Type) (Term, Term) {
	sc := ex.sc
	tid := sc.typeID(t)
	ex.V.noteType(sc, t)
	is := func(c string) Term { return Term{"((_ is " + c + ") " + v.S + ")", SBool} }
	switch sc.sortOf(t) {
	case SBool:
		return and(is("VBool"), eq(app(SInt, "vbT", v), tid)), app(SBool, "vb", v)
	case SInt:
		if isPointerLike(t) || isFunc(t) {
			return and(is("VRef"), eq(app(SInt, "vpT", v), tid)), app(SInt, "vp", v)
		}
		return and(is("VInt"), eq(app(SInt, "viT", v), tid)), app(SInt, "vi", v)
	case SReal:
		return and(is("VReal"), eq(app(SInt, "vrT", v), tid)), app(SReal, "vr", v)
	case SStr:
		return and(is("VStr"), eq(app(SInt, "vsT", v), tid)), app(SStr, "vs", v)
	case SSlice:
		return and(is("VSlice"), eq(app(SInt, "vlT", v), tid)), app(SSlice, "vl", v)
	}
	s := sc.sortOf(t)
	sc.declareFun("box:"+s, []string{s}, SInt)
	unboxf := sc.declareFun("unbox:"+s, []string{SInt}, s)
	return and(is("VBox"), eq(app(SInt, "vxT", v), tid)), app(s, unboxf, app(SInt, "vx", v))
}

func (ex *Exec) typeAssert(f *frame, st *State, x *ssa.TypeAssert) {
	sc := ex.sc
	v := f.val(x.X)
	var cond, payload Term
	if it, ok := x.AssertedType.Underlying().(*types.Interface); ok {
		if it.NumMethods() == 0 {
			cond = not(eq(v, Term{"VNil", SVal}))
		} else {
			key := typeStr(x.AssertedType)
			ex.V.noteIface(sc, key, it)
			fn := sc.declareFun("impl:"+key, []string{SInt}, SBool)
			cond = and(not(eq(v, Term{"VNil", SVal})), app(SBool, fn, app(SInt, "typeOf", v)))
			// if the static type already guarantees the interface, only nil-ness matters
			if xi, ok := x.X.Type().Underlying().(*types.Interface); ok && types.Implements(xi, it) {
				cond = not(eq(v, Term{"VNil", SVal}))
			}
		}
		payload = v
	} else {
		cond, payload = ex.unboxAs(v, x.AssertedType)
	}
	if x.CommaOk {
		okc := sc.define(f.name(x)+"#ok", cond)
		pv := sc.define(f.name(x)+"#v", ite(okc, payload, sc.zero(x.AssertedType)))
		f.tuples[x] = []Term{pv, okc}
		ex.wellTyped(st, pv, x.AssertedType)
		ex.assume(st, implies(okc, ex.jsonShapedFact(pv, x.AssertedType)))
		return
	}
	if f.sweepOn() {
		ex.oblige(f, st, "typeassert", ex.V.srcText(x, x.Pos()), "", x.Pos(), cond, "unchecked type assertion "+typeStr(x.AssertedType))
	} else {
		ex.assume(st, cond)
	}
	pv := f.def(x, payload)
	ex.wellTyped(st, pv, x.AssertedType)
	ex.jsonShaped(st, pv, x.AssertedType)
}

func (ex *Exec) indexAddr(f *frame, st *State, x *ssa.IndexAddr) {
	iv := f.val(x.Index)
	switch u := x.X.Type().Underlying().(type) {
	case *types.Slice:
		sv := f.val(x.X)
		if f.sweepOn() {
			ex.oblige(f, st, "index", ex.V.srcText(x, x.Pos()), "", x.Pos(), and(app(SBool, "<=", intLit(0), iv), app(SBool, "<", iv, app(SInt, "slen", sv))), "slice index in range")
		}
		f.locs[x] = &Loc{kind: "elem", typ: u.Elem(), elemT: u.Elem(), ref: app(SInt, "sarr", sv), idx: app(SInt, "+", app(SInt, "soff", sv), iv)}
		if o, ok := f.origin[x.X]; ok {
			f.locs[x].origin = o
		}
	case *types.Pointer:
		at := u.Elem().Underlying().(*types.Array)
		if f.sweepOn() {
			if _, isConst := x.Index.(*ssa.Const); !isConst {
				ex.oblige(f, st, "index", ex.V.srcText(x, x.Pos()), "", x.Pos(), and(app(SBool, "<=", intLit(0), iv), app(SBool, "<", iv, intLit(at.Len()))), "array index in range")
			}
		}
		f.locs[x] = &Loc{kind: "elem", typ: at.Elem(), elemT: at.Elem(), ref: f.val(x.X), idx: iv}
	default:
		panic("indexAddr")
	}
	f.vals[x] = ex.sc.freshConst(f.name(x)+"&", SInt)
}

func (ex *Exec) mapLookup(st *State, m *types.Map, mv, k Term) (Term, Term) {
	sc := ex.sc
	ks, vs := sc.sortOf(m.Key()), sc.sortOf(m.Elem())
	md := ex.get(st, compMapDom(m), arraySort(SInt, arraySort(ks, SBool)))
	mvv := ex.get(st, compMapVal(m), arraySort(SInt, arraySort(ks, vs)))
	ml := ex.get(st, compMapLen(m), arraySort(SInt, SInt))
	has := and(not(eq(mv, intLit(0))), sel(sel(md, mv), k))
	// has => len >= 1
	ex.assume(st, implies(has, app(SBool, ">=", sel(ml, mv), intLit(1))))
	return has, sel(sel(mvv, mv), k)
}

func (ex *Exec) mapStore(st *State, m *types.Map, mv, k, v Term) {
	sc := ex.sc
	ks, vs := sc.sortOf(m.Key()), sc.sortOf(m.Elem())
	md := ex.get(st, compMapDom(m), arraySort(SInt, arraySort(ks, SBool)))
	mvv := ex.get(st, compMapVal(m), arraySort(SInt, arraySort(ks, vs)))
	ml := ex.get(st, compMapLen(m), arraySort(SInt, SInt))
	had := sel(sel(md, mv), k)
	ex.set(st, compMapLen(m), store(ml, mv, app(SInt, "+", sel(ml, mv), ite(had, intLit(0), intLit(1)))))
	ex.set(st, compMapDom(m), store(md, mv, store(sel(md, mv), k, tTrue)))
	ex.set(st, compMapVal(m), store(mvv, mv, store(sel(mvv, mv), k, v)))
}

func (ex *Exec) mapDelete(st *State, m *types.Map, mv, k Term) {
	sc := ex.sc
	ks := sc.sortOf(m.Key())
	md := ex.get(st, compMapDom(m), arraySort(SInt, arraySort(ks, SBool)))
	ml := ex.get(st, compMapLen(m), arraySort(SInt, SInt))
	had := and(not(eq(mv, intLit(0))), sel(sel(md, mv), k))
	ex.set(st, compMapLen(m), ite(had, store(ml, mv, app(SInt, "-", sel(ml, mv), intLit(1))), ml))
	ex.set(st, compMapDom(m), ite(eq(mv, intLit(0)), md, store(md, mv, store(sel(md, mv), k, tFalse))))
	// a key that is still present keeps the length positive (instantiated at the candidate keys of this VC)
	md2 := ex.get(st, compMapDom(m), arraySort(SInt, arraySort(ks, SBool)))
	ml2 := ex.get(st, compMapLen(m), arraySort(SInt, SInt))
	for _, c := range ex.instCands[candClass(ks, m.Key())] {
		ex.assume(st, implies(and(not(eq(mv, intLit(0))), sel(sel(md2, mv), c)), app(SBool, ">=", sel(ml2, mv), intLit(1))))
	}
}

func (ex *Exec) lookup(f *frame, st *State, x *ssa.Lookup) {
	sc := ex.sc
	switch u := x.X.Type().Underlying().(type) {
	case *types.Map:
		mv, k := f.val(x.X), f.val(x.Index)
		ex.lockCheckMap(f, st, x.X, false, x.Pos())
		has, v := ex.mapLookup(st, u, mv, k)
		hasC := sc.define(f.name(x)+"#ok", has)
		vC := sc.define(f.name(x)+"#v", ite(hasC, v, sc.zero(u.Elem())))
		ex.wellTyped(st, vC, u.Elem())
		if x.CommaOk {
			f.tuples[x] = []Term{vC, hasC}
		} else {
			f.vals[x] = vC
		}
	default:
		// string index
		sv, iv := f.val(x.X), f.val(x.Index)
		if f.sweepOn() {
			ex.oblige(f, st, "index", ex.V.srcText(x, x.Pos()), "", x.Pos(), and(app(SBool, "<=", intLit(0), iv), app(SBool, "<", iv, app(SInt, "str.len", sv))), "string index in range")
		}
		f.def(x, app(SInt, "str.to_code", app(SStr, "str.at", sv, iv)))
	}
}

func (ex *Exec) slice(f *frame, st *State, x *ssa.Slice) {
	_ = ex.sc
	xv := f.val(x.X)
	var lo, hi Term
	if x.Low != nil {
		lo = f.val(x.Low)
	} else {
		lo = intLit(0)
	}
	switch u := x.X.Type().Underlying().(type) {
	case *types.Slice:
		n := app(SInt, "slen", xv)
		if x.High != nil {
			hi = f.val(x.High)
		} else {
			hi = n
		}
		if f.sweepOn() && (x.Low != nil || x.High != nil) {
			ex.oblige(f, st, "slicebounds", ex.V.srcText(x, x.Pos()), "", x.Pos(), and(app(SBool, "<=", intLit(0), lo), app(SBool, "<=", lo, hi), app(SBool, "<=", hi, n)), "slice bounds in range (checked against len, not cap)")
		}
		f.def(x, app(SSlice, "mkSlice", app(SInt, "sarr", xv), app(SInt, "+", app(SInt, "soff", xv), lo), app(SInt, "-", hi, lo)))
		if o, ok := f.origin[x.X]; ok {
			f.origin[x] = o
		}
	case *types.Basic: // string
		n := app(SInt, "str.len", xv)
		if x.High != nil {
			hi = f.val(x.High)
		} else {
			hi = n
		}
		if f.sweepOn() {
			ex.oblige(f, st, "slicebounds", ex.V.srcText(x, x.Pos()), "", x.Pos(), and(app(SBool, "<=", intLit(0), lo), app(SBool, "<=", lo, hi), app(SBool, "<=", hi, n)), "string slice bounds in range")
		}
		f.def(x, app(SStr, "str.substr", xv, lo, app(SInt, "-", hi, lo)))
	case *types.Pointer:
		at := u.Elem().Underlying().(*types.Array)
		if x.High != nil {
			hi = f.val(x.High)
		} else {
			hi = intLit(at.Len())
		}
		f.def(x, app(SSlice, "mkSlice", xv, lo, app(SInt, "-", hi, lo)))
	default:
		f.fresh(x)
	}
}

func (ex *Exec) next(f *frame, st *State, x *ssa.Next) {
	sc := ex.sc
	tt := x.Type().(*types.Tuple)
	ok := sc.freshConst(f.name(x)+"#ok", SBool)
	if x.IsString {
		f.tuples[x] = []Term{ok, sc.freshConst(f.name(x)+"#k", SInt), sc.freshConst(f.name(x)+"#v", SInt)}
		return
	}
	rng := x.Iter.(*ssa.Range)
	m := rng.X.Type().Underlying().(*types.Map)
	mv := f.val(rng.X)
	var k, v Term
	kt, vt := tt.At(1).Type(), tt.At(2).Type()
	k = sc.freshConst(f.name(x)+"#k", sc.sortOf(m.Key()))
	has, cur := ex.mapLookup(st, m, mv, k)
	ex.assume(st, implies(ok, has))
	v = sc.define(f.name(x)+"#v", cur)
	ex.wellTyped(st, v, m.Elem())
	_ = kt
	_ = vt
	f.tuples[x] = []Term{ok, k, v}
	ex.lockCheckMap(f, st, rng.X, false, x.Pos())
}

func (ex *Exec) checkInvariants(f *frame, st *State, li *loopInfo, at *ssa.BasicBlock, phase string) {
	if f.contract == nil || f.inline {
		return
	}
	ls := f.contract.Loops[li.ordinal]
	if ls == nil {
		return
	}
	if phase == "step" {
		// at a back edge the loop-carried variables have their NEXT values
		saved := map[*ssa.Phi]Term{}
		for _, ins := range li.header.Instrs {
			phi, ok := ins.(*ssa.Phi)
			if !ok {
				break
			}
			for i, p := range li.header.Preds {
				if p == at {
					saved[phi] = f.vals[phi]
					f.vals[phi] = f.val(phi.Edges[i])
				}
			}
		}
		defer func() {
			for phi, v := range saved {
				f.vals[phi] = v
			}
		}()
	}
	for _, inv := range ls.Invariants {
		genv := ex.frameEnv(f, st, f.entry)
		genv.goal = true
		genv.inLoopInv = true
		genv.atLoopHeader(li)
		tvv, err := genv.trans(inv.Expr)
		t := tvv.t
		if err != nil {
			ex.oblige(f, st, "invariant", fmt.Sprintf("loop%d:%s:does-not-attach", li.ordinal, inv.Label), inv.Label, li.header.Instrs[0].Pos(), tFalse, "the contract no longer attaches to the code ("+err.Error()+"): "+inv.Text)
			continue
		}
		ex.oblige(f, st, "invariant", fmt.Sprintf("loop%d:%s:%s", li.ordinal, inv.Label, phase), inv.Label, li.header.Instrs[0].Pos(), t, "loop invariant "+phase+": "+inv.Text)
	}
}

func (ex *Exec) assumeInvariants(f *frame, st *State, li *loopInfo) {
	if f.contract == nil || f.inline {
		return
	}
	ls := f.contract.Loops[li.ordinal]
	if ls == nil {
		return
	}
	for _, inv := range ls.Invariants {
		aenv := ex.frameEnv(f, st, f.entry)
		aenv.inLoopInv = true
		aenv.atLoopHeader(li)
		tvv, err := aenv.trans(inv.Expr)
		if err != nil {
			continue // reported by checkInvariants
		}
		ex.assume(st, tvv.t)
	}
}

func trimLabel(s string) string {
	if i := strings.Index(s, ":"); i >= 0 {
		return s[i+1:]
	}
	return s
}

// jsonShaped: standing assumption that interface values never hold typed nil maps or slices with nil
// backing but non-zero length (JSON-shaped data; listed in every evidence file).
func (ex *Exec) jsonShapedFact(v Term, t types.Type) Term {
	if _, ok := t.Underlying().(*types.Map); ok {
		return not(eq(v, intLit(0)))
	}
	return tTrue
}

func (ex *Exec) jsonShaped(st *State, v Term, t types.Type) {
	ex.assume(st, ex.jsonShapedFact(v, t))
}

// escapes: does the address of a local cell leave this function (argument of a rulio call, stored as a value,
// captured by a closure, sent, returned)? Passing it to an external (dependency) function is not an escape:
// such functions may write through it during the call (handled at the call) but are assumed not to retain it.
func escapes(a *ssa.Alloc) bool {
	var visit func(v ssa.Value, depth int) bool
	visit = func(v ssa.Value, depth int) bool {
		if depth > 4 {
			return true
		}
		refs := v.Referrers()
		if refs == nil {
			return true
		}
		for _, ins := range *refs {
			switch u := ins.(type) {
			case *ssa.DebugRef:
			case *ssa.UnOp:
				if u.Op != token.MUL {
					return true
				}
			case *ssa.Store:
				if u.Val == v {
					return true
				}
			case *ssa.FieldAddr:
				if visit(u, depth+1) {
					return true
				}
			case *ssa.IndexAddr:
				if visit(u, depth+1) {
					return true
				}
			case *ssa.MakeInterface:
				if visit(u, depth+1) {
					return true
				}
			case *ssa.MakeClosure:
				// captured by a closure that only reads it: not an escape for writes
				fn := u.Fn.(*ssa.Function)
				idx := -1
				for i, b := range u.Bindings {
					if b == v {
						idx = i
					}
				}
				if idx < 0 || idx >= len(fn.FreeVars) || !readOnlyUse(fn.FreeVars[idx], 0) {
					return true
				}
			case *ssa.Call:
				callee := u.Call.StaticCallee()
				if callee == nil || isRulio(callee) || callee.Blocks != nil && isRulio(callee) {
					return true
				}
				if u.Call.Value == v {
					return true
				}
			default:
				return true
			}
		}
		return false
	}
	return visit(a, 0)
}

// inLoop: allocation sites inside loops produce many cells; only straight-line ones are tracked as private.
func inLoop(f *frame, a *ssa.Alloc) bool {
	for _, li := range f.loopInfo {
		if li.body[a.Block()] {
			return true
		}
	}
	return false
}

// readOnlyUse: a captured variable (pointer) that the closure only loads from.
func readOnlyUse(v ssa.Value, depth int) bool {
	if depth > 3 {
		return false
	}
	refs := v.Referrers()
	if refs == nil {
		return false
	}
	for _, ins := range *refs {
		switch u := ins.(type) {
		case *ssa.DebugRef:
		case *ssa.UnOp:
			if u.Op != token.MUL {
				return false
			}
		case *ssa.FieldAddr:
			if !readOnlyUse(u, depth+1) {
				return false
			}
		case *ssa.MakeClosure:
			fn := u.Fn.(*ssa.Function)
			for i, b := range u.Bindings {
				if b == v && (i >= len(fn.FreeVars) || !readOnlyUse(fn.FreeVars[i], depth+1)) {
					return false
				}
			}
		default:
			return false
		}
	}
	return true
}

// atLoopHeader: in a loop invariant a name denotes the value the variable has at the loop header (a phi of the header, or
// the latest definition in a dominating block) - in particular a parameter that was reassigned before the loop.
func (env *Env) atLoopHeader(li *loopInfo) {
	if li == nil || li.header == nil {
		return
	}
	env.siteBlock = li.header
	env.siteInstr = nil
	for _, ins := range li.header.Instrs {
		if _, isPhi := ins.(*ssa.Phi); !isPhi {
			env.siteInstr = ins
			break
		}
	}
}
