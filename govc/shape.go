package main

// shape.go: the "shape" of the code the contracts were written against - the names of the functions of the rulio packages
// with their signatures, and for every function the names of its parameters, free variables and local variables (with their
// types, in declaration order) - recorded in baseline/_shape.json when the baselines are written. Contracts refer to
// functions, parameters and locals by NAME; a behaviour-preserving rename would make them "no longer attach". Before the
// contract texts are parsed, names that have been renamed since the shape was recorded are rewritten:
//   - a parameter / free variable is identified by its position;
//   - a local by its position in the function's declaration list when the list has kept its length and types (a pure
//     rename), otherwise by being the only vanished and the only new local of its type;
//   - a function or method under contract that no longer exists by being the only function that is new since the shape was
//     recorded and has the same receiver and signature.
// Nothing else is guessed: a contract that still does not attach is reported as before.

import (
	"encoding/json"
	"fmt"
	"go/ast"
	"go/types"
	"os"
	"path/filepath"
	"regexp"
	"sort"
	"strings"

	"golang.org/x/tools/go/packages"
	"golang.org/x/tools/go/ssa"
)

type FnShape struct {
	Sig    string      `json:"sig"`
	Flat   string      `json:"flat,omitempty"`   // the signature with the receiver as first parameter (a method turned into a function keeps it)
	Params []string    `json:"params,omitempty"` // receiver, parameters, then free variables
	Locals [][2]string `json:"locals,omitempty"` // name, type - in declaration order
}

type Shape struct {
	Functions map[string]*FnShape `json:"functions"`
}

func shapePath() string { return filepath.Join(verifDir, "baseline", "_shape.json") }

func sigString(fn *ssa.Function) string {
	s := fn.Signature.String()
	if fn.Signature.Recv() != nil {
		s = "recv " + fn.Signature.Recv().Type().String() + " " + s
	}
	return strings.ReplaceAll(s, modPath+"/", "")
}

// flatSig: parameter types (receiver first) and result types, in the order given.
func flatSig(fn *ssa.Function) string {
	var ps []string
	for _, p := range fn.Params {
		ps = append(ps, p.Type().String())
	}
	s := "(" + strings.Join(ps, ", ") + ") " + fn.Signature.Results().String()
	return strings.ReplaceAll(s, modPath+"/", "")
}

// sortedFlat: a flat signature with its parameter types in sorted order.
func sortedFlat(flat string) string {
	i := strings.Index(flat, ") ")
	if !strings.HasPrefix(flat, "(") || i < 0 {
		return flat
	}
	ps := strings.Split(flat[1:i], ", ")
	sort.Strings(ps)
	return "(" + strings.Join(ps, ", ") + flat[i:]
}

func pkgOf(P *Program, fn *ssa.Function) *packages.Package {
	p := fn.Pkg
	for f := fn; p == nil && f.Parent() != nil; f = f.Parent() {
		p = f.Parent().Pkg
	}
	if p == nil {
		return nil
	}
	for _, pk := range P.Pkgs {
		if pk.Types == p.Pkg {
			return pk
		}
	}
	return nil
}

func localsOf(P *Program, fn *ssa.Function) [][2]string {
	pk := pkgOf(P, fn)
	if pk == nil || fn.Syntax() == nil {
		return nil
	}
	var body *ast.BlockStmt
	switch n := fn.Syntax().(type) {
	case *ast.FuncDecl:
		body = n.Body
	case *ast.FuncLit:
		body = n.Body
	}
	if body == nil {
		return nil
	}
	var out [][2]string
	ast.Inspect(body, func(n ast.Node) bool {
		switch x := n.(type) {
		case *ast.FuncLit:
			return false // a closure is a function of its own
		case *ast.Ident:
			if obj, ok := pk.TypesInfo.Defs[x].(*types.Var); ok && obj != nil && !obj.IsField() && x.Name != "_" {
				out = append(out, [2]string{x.Name, strings.ReplaceAll(obj.Type().String(), modPath+"/", "")})
			}
		}
		return true
	})
	return out
}

func shapeOf(P *Program) *Shape {
	sh := &Shape{Functions: map[string]*FnShape{}}
	for _, fn := range P.All {
		fs := &FnShape{Sig: sigString(fn), Flat: flatSig(fn), Locals: localsOf(P, fn)}
		for _, p := range fn.Params {
			fs.Params = append(fs.Params, p.Name())
		}
		for _, p := range fn.FreeVars {
			fs.Params = append(fs.Params, p.Name())
		}
		sh.Functions[funcName(fn)] = fs
	}
	return sh
}

func runShape(args []string) int {
	P, _ := loadAll()
	sh := shapeOf(P)
	b, _ := json.MarshalIndent(sh, "", " ")
	os.MkdirAll(filepath.Dir(shapePath()), 0o755)
	if err := os.WriteFile(shapePath(), append(b, '\n'), 0o644); err != nil {
		fmt.Fprintln(os.Stderr, "govc: engine error:", err)
		return 2
	}
	fmt.Printf("shape written: %d functions\n", len(sh.Functions))
	return 0
}

var identRe = regexp.MustCompile(`[A-Za-z_][A-Za-z0-9_]*`)

// renameIdents rewrites whole identifiers that are not selected fields (not preceded by '.') and not inside string literals.
func renameIdents(text string, m map[string]string) string {
	if len(m) == 0 {
		return text
	}
	var b strings.Builder
	i := 0
	inStr := false
	for i < len(text) {
		c := text[i]
		if c == '"' && (i == 0 || text[i-1] != '\\') {
			inStr = !inStr
			b.WriteByte(c)
			i++
			continue
		}
		if !inStr && (c == '_' || c >= 'a' && c <= 'z' || c >= 'A' && c <= 'Z') {
			loc := identRe.FindStringIndex(text[i:])
			w := text[i : i+loc[1]]
			prevDot := false
			for k := i - 1; k >= 0; k-- {
				if text[k] == ' ' {
					continue
				}
				prevDot = text[k] == '.'
				break
			}
			isCall := i+loc[1] < len(text) && text[i+loc[1]] == '(' // a spec function or macro, not a variable
			if nw, ok := m[w]; ok && !prevDot && !isCall {
				b.WriteString(nw)
			} else {
				b.WriteString(w)
			}
			i += loc[1]
			continue
		}
		b.WriteByte(c)
		i++
	}
	return b.String()
}

// renameCallsIn rewrites function / method names where they are called (an identifier followed by '('), also after a '.'.
func renameCallsIn(text string, m map[string]string) string {
	if len(m) == 0 {
		return text
	}
	var b strings.Builder
	i := 0
	for i < len(text) {
		c := text[i]
		if c == '_' || c >= 'a' && c <= 'z' || c >= 'A' && c <= 'Z' {
			loc := identRe.FindStringIndex(text[i:])
			w := text[i : i+loc[1]]
			j := i + loc[1]
			if nw, ok := m[w]; ok && j < len(text) && text[j] == '(' {
				b.WriteString(nw)
			} else {
				b.WriteString(w)
			}
			i = j
			continue
		}
		b.WriteByte(c)
		i++
	}
	return b.String()
}

// shortName: the bare function / method name of a funcName ("(*core.IndexedState).rem" -> rem, "core.cast" -> cast).
func shortName(full string) string {
	s := full
	if i := strings.Index(s, "$"); i >= 0 {
		s = s[:i]
	}
	if i := strings.LastIndex(s, "."); i >= 0 {
		s = s[i+1:]
	}
	return s
}

// renameMap: which parameters, free variables and locals of one function were renamed (old name -> new name).
func renameMap(of, nf *FnShape) map[string]string {
	m := map[string]string{}
	if len(of.Params) == len(nf.Params) {
		// by position - but only a name that is gone is a rename (parameters that merely changed places keep their names)
		oldP, newP := map[string]bool{}, map[string]bool{}
		for i := range of.Params {
			oldP[of.Params[i]] = true
			newP[nf.Params[i]] = true
		}
		for i := range of.Params {
			if of.Params[i] != nf.Params[i] && of.Params[i] != "" && nf.Params[i] != "" && !newP[of.Params[i]] && !oldP[nf.Params[i]] {
				m[of.Params[i]] = nf.Params[i]
			}
		}
	}
	sameTypes := len(of.Locals) == len(nf.Locals)
	if sameTypes {
		for i := range of.Locals {
			if of.Locals[i][1] != nf.Locals[i][1] {
				sameTypes = false
			}
		}
	}
	nowNames := map[string]bool{}
	for _, l := range nf.Locals {
		nowNames[l[0]] = true
	}
	for _, p := range nf.Params {
		nowNames[p] = true
	}
	if sameTypes {
		for i := range of.Locals {
			if of.Locals[i][0] != nf.Locals[i][0] && !nowNames[of.Locals[i][0]] {
				m[of.Locals[i][0]] = nf.Locals[i][0]
			}
		}
		return m
	}
	oldNames := map[string]bool{}
	for _, l := range of.Locals {
		oldNames[l[0]] = true
	}
	gone := map[string][]string{} // type -> vanished names
	born := map[string][]string{} // type -> new names
	seen := map[string]bool{}
	for _, l := range of.Locals {
		if !nowNames[l[0]] && !seen["o"+l[0]] {
			seen["o"+l[0]] = true
			gone[l[1]] = append(gone[l[1]], l[0])
		}
	}
	for _, l := range nf.Locals {
		if !oldNames[l[0]] && !seen["n"+l[0]] {
			seen["n"+l[0]] = true
			born[l[1]] = append(born[l[1]], l[0])
		}
	}
	for t, g := range gone {
		if len(g) == 1 && len(born[t]) == 1 {
			m[g[0]] = born[t][0]
		}
	}
	return m
}

// applyShapeAliases rewrites the contract texts (before they are parsed) for what has been renamed since the shape was recorded.
// It returns notes describing every alias applied (they go into the evidence).
func applyShapeAliases(P *Program, sp *Specs) []string {
	b, err := os.ReadFile(shapePath())
	if err != nil {
		return nil
	}
	var old Shape
	if json.Unmarshal(b, &old) != nil || old.Functions == nil {
		return nil
	}
	cur := shapeOf(P)
	var notes []string
	for n := range cur.Functions {
		if _, ok := old.Functions[n]; !ok {
			shapeNewFuncs[n] = true
		}
	}

	// 1. functions under contract that were renamed
	fnAlias := map[string]string{}   // old full name -> new full name
	callAlias := map[string]string{} // old short name -> new short name
	for _, k := range sortedKeys(sp.contracts) {
		c := sp.contracts[k]
		if strings.Contains(k, ":") || strings.Contains(k, "$") { // iface:/funcval:/extern: and closures (handled with their parent)
			continue
		}
		if _, ok := cur.Functions[k]; ok {
			continue
		}
		os0, ok := old.Functions[k]
		if !ok {
			continue
		}
		var cands []string
		for n, fs := range cur.Functions {
			if _, existed := old.Functions[n]; existed || strings.Contains(n, "$") {
				continue
			}
			if fs.Sig == os0.Sig || (os0.Flat != "" && fs.Flat == os0.Flat) ||
				(shortName(n) == shortName(k) && os0.Flat != "" && sortedFlat(fs.Flat) == sortedFlat(os0.Flat)) {
				// same receiver and signature; or the receiver turned into the first parameter (or the reverse); or
				// the same name with the same parameters in another order
				cands = append(cands, n)
			}
		}
		if len(cands) == 1 {
			fnAlias[k] = cands[0]
			shapeFnAlias[k] = cands[0]
			callAlias[shortName(k)] = shortName(cands[0])
			notes = append(notes, fmt.Sprintf("function under contract %s no longer exists; its contract is applied to %s (the only new function with the same receiver and signature)", k, cands[0]))
		}
		_ = c
	}
	if len(fnAlias) > 0 {
		for _, k := range sortedKeys(sp.contracts) {
			for o, n := range fnAlias {
				if k == o || strings.HasPrefix(k, o+"$") {
					c := sp.contracts[k]
					delete(sp.contracts, k)
					c.Key = n + strings.TrimPrefix(k, o)
					sp.contracts[c.Key] = c
				}
			}
		}
		for o, n := range fnAlias {
			if sp.noInline[o] {
				sp.noInline[n] = true
			}
			if fs, ok := old.Functions[o]; ok {
				old.Functions[n] = fs
			}
			for k, fs := range old.Functions {
				if strings.HasPrefix(k, o+"$") {
					old.Functions[n+strings.TrimPrefix(k, o)] = fs
				}
			}
		}
	}

	// 2. parameters, free variables and locals that were renamed (every function; contracts are rewritten below)
	for _, k := range sortedKeys(cur.Functions) {
		if of, ok := old.Functions[k]; ok {
			if m := renameMap(of, cur.Functions[k]); len(m) > 0 {
				shapeRenames[k] = m
			}
		}
	}
	for _, k := range sortedKeys(sp.contracts) {
		c := sp.contracts[k]
		m := shapeRenames[k]
		if len(m) == 0 && len(callAlias) == 0 {
			continue
		}
		if len(m) > 0 {
			var pairs []string
			for o, n := range m {
				pairs = append(pairs, o+"->"+n)
			}
			sort.Strings(pairs)
			notes = append(notes, fmt.Sprintf("%s: renamed since the contracts were written, contract read accordingly: %s", k, strings.Join(pairs, ", ")))
		}
		re := func(s string) string { return renameIdents(s, m) }
		for _, cls := range [][]Clause{c.Requires, c.Ensures, c.EachRet, c.GhostEns, c.Entry, c.Insts} {
			for i := range cls {
				cls[i].Text = re(cls[i].Text)
			}
		}
		for _, ls := range c.Loops {
			for i := range ls.Invariants {
				ls.Invariants[i].Text = re(ls.Invariants[i].Text)
			}
		}
		for _, sa := range c.Sites {
			sa.Text = re(sa.Text)
			// (a renamed function may be the callee named by the site: the renamed spelling is accepted as well)
			if name, ok := strings.CutPrefix(sa.Site, "call:"); ok {
				nm, cs, inCase := strings.Cut(name, "@")
				if n2, ok := callAlias[nm]; ok {
					sa.AltSite = "call:" + n2
					if inCase {
						sa.AltSite += "@" + cs
					}
				}
			} else {
				sa.Site = re(sa.Site)
				if alt := renameCallsIn(sa.Site, callAlias); alt != sa.Site {
					sa.AltSite = alt
				}
			}
		}
		for i := range c.Modifies {
			c.Modifies[i] = renameIdents(c.Modifies[i], m)
		}
	}
	return notes
}
