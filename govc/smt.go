package main

import (
	"fmt"
	"go/types"
	"regexp"
	"sort"
	"strconv"
	"strings"
	"sync"
)

// Term is an SMT-LIB term with its sort.
type Term struct {
	S    string
	Sort string
}

func (t Term) String() string { return t.S }

const (
	SInt   = "Int"
	SBool  = "Bool"
	SReal  = "Real"
	SStr   = "String"
	SVal   = "Val"
	SSlice = "Slice"
)

var (
	tTrue  = Term{"true", SBool}
	tFalse = Term{"false", SBool}
)

func sym(name string) string {
	ok := true
	for _, c := range name {
		if !(c >= 'a' && c <= 'z' || c >= 'A' && c <= 'Z' || c >= '0' && c <= '9' || c == '_' || c == '.' || c == '!' || c == '$') {
			ok = false
			break
		}
	}
	if ok && name != "" && !(name[0] >= '0' && name[0] <= '9') {
		return name
	}
	name = strings.ReplaceAll(name, "|", "/")
	name = strings.ReplaceAll(name, "\\", "/")
	return "|" + name + "|"
}

func intLit(n int64) Term {
	if n < 0 {
		return Term{fmt.Sprintf("(- %d)", -n), SInt}
	}
	return Term{strconv.FormatInt(n, 10), SInt}
}

func strLit(s string) Term {
	var b strings.Builder
	b.WriteByte('"')
	for _, r := range s {
		switch {
		case r == '"':
			b.WriteString(`""`)
		case r < 32 || r > 126 || r == '\\':
			fmt.Fprintf(&b, `\u{%x}`, r)
		default:
			b.WriteRune(r)
		}
	}
	b.WriteByte('"')
	return Term{b.String(), SStr}
}

func app(sort string, f string, args ...Term) Term {
	var b strings.Builder
	b.WriteByte('(')
	b.WriteString(f)
	for _, a := range args {
		b.WriteByte(' ')
		b.WriteString(a.S)
	}
	b.WriteByte(')')
	return Term{b.String(), sort}
}

func and(ts ...Term) Term {
	var xs []Term
	for _, t := range ts {
		if t.S == "true" {
			continue
		}
		if t.S == "false" {
			return tFalse
		}
		xs = append(xs, t)
	}
	if len(xs) == 0 {
		return tTrue
	}
	if len(xs) == 1 {
		return xs[0]
	}
	return app(SBool, "and", xs...)
}

func or(ts ...Term) Term {
	var xs []Term
	for _, t := range ts {
		if t.S == "false" {
			continue
		}
		if t.S == "true" {
			return tTrue
		}
		xs = append(xs, t)
	}
	if len(xs) == 0 {
		return tFalse
	}
	if len(xs) == 1 {
		return xs[0]
	}
	return app(SBool, "or", xs...)
}

func not(t Term) Term {
	if t.S == "true" {
		return tFalse
	}
	if t.S == "false" {
		return tTrue
	}
	return app(SBool, "not", t)
}

func implies(a, b Term) Term {
	if a.S == "true" {
		return b
	}
	if a.S == "false" || b.S == "true" {
		return tTrue
	}
	return app(SBool, "=>", a, b)
}

func eq(a, b Term) Term {
	if a.S == b.S {
		return tTrue
	}
	return app(SBool, "=", a, b)
}

func ite(c, a, b Term) Term {
	if c.S == "true" {
		return a
	}
	if c.S == "false" {
		return b
	}
	if a.S == b.S {
		return a
	}
	return app(a.Sort, "ite", c, a, b)
}

func sel(arr Term, idx Term) Term {
	return app(arrayElemSort(arr.Sort), "select", arr, idx)
}

func store(arr, idx, v Term) Term {
	return app(arr.Sort, "store", arr, idx, v)
}

func arraySort(k, v string) string { return "(Array " + k + " " + v + ")" }

// arrayElemSort parses "(Array K V)" and returns V.
func arrayElemSort(s string) string {
	_, v := splitArraySort(s)
	return v
}

func splitArraySort(s string) (string, string) {
	if !strings.HasPrefix(s, "(Array ") {
		panic("not an array sort: " + s)
	}
	body := s[len("(Array ") : len(s)-1]
	// first sort token
	depth := 0
	for i, c := range body {
		switch c {
		case '(':
			depth++
		case ')':
			depth--
		case ' ':
			if depth == 0 {
				return body[:i], body[i+1:]
			}
		}
	}
	panic("bad array sort " + s)
}

// Script accumulates declarations and assertions for one function's VC.
type Script struct {
	sorts      []string // datatype declarations in order
	sortDecl   map[string]bool
	decls      []string          // declare-fun / define-fun in order
	declared   map[string]string // symbol -> sort (or signature)
	asserts    []string          // assertion bodies, in generation order
	axioms     []string          // always included
	assertSyms [][]string
	symIndex   map[string][]int
	mu         sync.Mutex
	declSyms   []string
	defOf      map[int]string // assertion index -> symbol it defines (conservative extension)
	defIdx     map[string]int
	fresh      int
	structs    map[string]*structSort
	typeIDs    map[string]int
	typeNames  []string
	typeObjs   map[int]types.Type
	qMarked    bool
}

type structSort struct {
	name   string
	fields []string // accessor names
	sorts  []string
}

func newScript() *Script {
	return &Script{sortDecl: map[string]bool{}, declared: map[string]string{}, structs: map[string]*structSort{}, typeIDs: map[string]int{}, typeObjs: map[int]types.Type{}}
}

const prelude = `(declare-datatypes ((Slice 0)) (((mkSlice (sarr Int) (soff Int) (slen Int)))))
(declare-datatypes ((Val 0)) (((VNil) (VBool (vbT Int) (vb Bool)) (VInt (viT Int) (vi Int)) (VReal (vrT Int) (vr Real)) (VStr (vsT Int) (vs String)) (VRef (vpT Int) (vp Int)) (VSlice (vlT Int) (vl Slice)) (VBox (vxT Int) (vx Int)))))
(define-fun typeOf ((v Val)) Int (ite ((_ is VNil) v) 0 (ite ((_ is VBool) v) (vbT v) (ite ((_ is VInt) v) (viT v) (ite ((_ is VReal) v) (vrT v) (ite ((_ is VStr) v) (vsT v) (ite ((_ is VRef) v) (vpT v) (ite ((_ is VSlice) v) (vlT v) (vxT v)))))))))
(define-fun nilSlice () Slice (mkSlice 0 0 0))
`

func (s *Script) freshName(prefix string) string {
	s.fresh++
	return fmt.Sprintf("%s!%d", prefix, s.fresh)
}

func (s *Script) declare(name, sort string) Term {
	q := sym(name)
	if old, ok := s.declared[q]; ok {
		if old != sort {
			panic(fmt.Sprintf("redeclare %s: %s vs %s", name, old, sort))
		}
		return Term{q, sort}
	}
	s.declared[q] = sort
	s.decls = append(s.decls, fmt.Sprintf("(declare-fun %s () %s)", q, sort))
	s.declSyms = append(s.declSyms, q)
	return Term{q, sort}
}

func (s *Script) declareFun(name string, args []string, ret string) string {
	q := sym(name)
	sig := "(" + strings.Join(args, " ") + ") " + ret
	if old, ok := s.declared[q]; ok {
		if old != sig {
			panic(fmt.Sprintf("redeclare fun %s: %s vs %s", name, old, sig))
		}
		return q
	}
	s.declared[q] = sig
	s.decls = append(s.decls, fmt.Sprintf("(declare-fun %s %s)", q, sig))
	s.declSyms = append(s.declSyms, q)
	return q
}

func (s *Script) freshConst(prefix, sort string) Term {
	return s.declare(s.freshName(prefix), sort)
}

// define introduces a named constant equal to t (keeps terms small).
func (s *Script) define(name string, t Term) Term {
	c := s.declare(name, t.Sort)
	before := len(s.asserts)
	s.assert(eq(c, t))
	if len(s.asserts) == before+1 && c.S != t.S {
		if s.defOf == nil {
			s.defOf = map[int]string{}
			s.defIdx = map[string]int{}
		}
		if _, dup := s.defIdx[c.S]; !dup {
			s.defOf[before] = c.S
			s.defIdx[c.S] = before
		}
	}
	return c
}

func (s *Script) assert(t Term) {
	if t.S == "true" {
		return
	}
	if t.Sort != SBool {
		panic("assert non-bool: " + t.S + " : " + t.Sort)
	}
	s.asserts = append(s.asserts, t.S)
}

func (s *Script) axiom(t Term) {
	if t.S != "true" {
		s.axioms = append(s.axioms, t.S)
	}
}

func (s *Script) typeID(t types.Type) Term {
	k := typeStr(t)
	id, ok := s.typeIDs[k]
	if !ok {
		id = len(s.typeIDs) + 1
		s.typeIDs[k] = id
		s.typeNames = append(s.typeNames, k)
		s.typeObjs[id] = t
	}
	return intLit(int64(id))
}

// symbolsOf lists the declared symbols occurring in an s-expression string.
func (s *Script) symbolsOf(text string) []string {
	var out []string
	i := 0
	n := len(text)
	for i < n {
		c := text[i]
		switch {
		case c == '(' || c == ')' || c == ' ' || c == '\n' || c == '\t':
			i++
		case c == '|':
			j := i + 1
			for j < n && text[j] != '|' {
				j++
			}
			tok := text[i : j+1]
			if _, ok := s.declared[tok]; ok {
				out = append(out, tok)
			}
			i = j + 1
		case c == '"':
			j := i + 1
			for j < n {
				if text[j] == '"' {
					if j+1 < n && text[j+1] == '"' {
						j += 2
						continue
					}
					break
				}
				j++
			}
			i = j + 1
		default:
			j := i
			for j < n && text[j] != '(' && text[j] != ')' && text[j] != ' ' && text[j] != '\n' {
				j++
			}
			tok := text[i:j]
			if _, ok := s.declared[tok]; ok {
				out = append(out, tok)
			}
			i = j
		}
	}
	return out
}

func (s *Script) indexAsserts() {
	if s.symIndex == nil {
		s.symIndex = map[string][]int{}
	}
	for i := len(s.assertSyms); i < len(s.asserts); i++ {
		syms := s.symbolsOf(s.asserts[i])
		s.assertSyms = append(s.assertSyms, syms)
		if _, isDef := s.defOf[i]; isDef {
			continue // definitions are pulled in only through the symbol they define
		}
		for _, y := range syms {
			s.symIndex[y] = append(s.symIndex[y], i)
		}
	}
}

// query renders a complete SMT-LIB script checking sat of (the cone of influence of extra within asserts[0:n]) ∧ extra.
// Dropping assertions that share no symbol (transitively) with the goal is sound for unsat answers and
// keeps sat answers meaningful (the dropped part constrains disjoint symbols only).
func (s *Script) query(n int, extra []Term, wantModel bool) string {
	s.mu.Lock()
	s.indexAsserts()
	s.mu.Unlock()
	keep := make([]bool, n)
	seenSym := map[string]bool{}
	var work []string
	push := func(syms []string) {
		for _, y := range syms {
			if !seenSym[y] {
				seenSym[y] = true
				work = append(work, y)
			}
		}
	}
	for _, e := range extra {
		push(s.symbolsOf(e.S))
	}
	for _, a := range s.axioms {
		_ = a
	}
	for len(work) > 0 {
		y := work[len(work)-1]
		work = work[:len(work)-1]
		if di, ok := s.defIdx[y]; ok && di < n && !keep[di] {
			keep[di] = true
			push(s.assertSyms[di])
		}
		for _, ai := range s.symIndex[y] {
			if ai < n && !keep[ai] {
				keep[ai] = true
				push(s.assertSyms[ai])
			}
		}
	}
	// goal-directed instantiation: instances of quantified assumptions made for the skolem constants of OTHER goals
	// are dropped at query time (see filterInstances): dropping conjuncts of an assumption only weakens it
	goalSk := map[string]bool{}
	for _, e := range extra {
		for _, y := range s.symbolsOf(e.S) {
			if strings.HasPrefix(y, "sk!") {
				goalSk[y] = true
			}
		}
	}
	var b strings.Builder
	b.WriteString("(set-option :produce-models true)\n(set-logic ALL)\n")
	b.WriteString(prelude)
	for _, d := range s.sorts {
		b.WriteString(d)
		b.WriteByte('\n')
	}
	used := seenSym
	for _, a := range s.axioms {
		for _, y := range s.symbolsOf(a) {
			used[y] = true
		}
	}
	for i, d := range s.decls {
		if !used[s.declSyms[i]] {
			continue
		}
		b.WriteString(d)
		b.WriteByte('\n')
	}
	for _, a := range s.axioms {
		b.WriteString("(assert ")
		b.WriteString(a)
		b.WriteString(")\n")
	}
	for i, a := range s.asserts[:n] {
		if !keep[i] {
			continue
		}
		b.WriteString("(assert ")
		if strings.Contains(a, instMarker) {
			a = filterInstances(a, goalSk)
		}
		b.WriteString(a)
		b.WriteString(")\n")
	}
	for _, e := range extra {
		b.WriteString("(assert ")
		b.WriteString(e.S)
		b.WriteString(")\n")
	}
	b.WriteString("(check-sat)\n")
	if wantModel {
		b.WriteString("(get-model)\n")
	}
	return b.String()
}

// structDatatype declares (once) an SMT datatype for a Go struct type.
func (s *Script) structDatatype(key string, fieldNames []string, fieldSorts []string) *structSort {
	if st, ok := s.structs[key]; ok {
		return st
	}
	name := fmt.Sprintf("S%d", len(s.structs)+1)
	st := &structSort{name: name}
	var b strings.Builder
	fmt.Fprintf(&b, "(declare-datatypes ((%s 0)) (((mk%s", name, name)
	for i, f := range fieldNames {
		acc := fmt.Sprintf("%s.%s", name, f)
		st.fields = append(st.fields, sym(acc))
		st.sorts = append(st.sorts, fieldSorts[i])
		fmt.Fprintf(&b, " (%s %s)", sym(acc), fieldSorts[i])
	}
	if len(fieldNames) == 0 {
		// empty struct: single nullary constructor
		b.Reset()
		fmt.Fprintf(&b, "(declare-datatypes ((%s 0)) (((mk%s", name, name)
	}
	b.WriteString("))))")
	s.sorts = append(s.sorts, "; "+key+"\n"+b.String())
	s.structs[key] = st
	return st
}

func sortedKeys[V any](m map[string]V) []string {
	ks := make([]string, 0, len(m))
	for k := range m {
		ks = append(ks, k)
	}
	sort.Strings(ks)
	return ks
}

// instMarker tags the conjunction of instances a quantified assumption was expanded to: (and |@q| inst1 inst2 ...).
// |@q| is a Bool constant asserted true.
const instMarker = "(and |@q| "

var skRe = regexp.MustCompile(`sk![0-9]+`)

// filterInstances removes, from every marked conjunction in a, the instances that mention a skolem constant which does not
// occur in the goal (they were made for other goals). Marked conjunctions only occur where dropping a conjunct weakens an
// assumption, so the result is implied by a.
func filterInstances(a string, goalSk map[string]bool) string {
	var out strings.Builder
	i := 0
	for i < len(a) {
		j := strings.Index(a[i:], instMarker)
		if j < 0 {
			out.WriteString(a[i:])
			break
		}
		out.WriteString(a[i : i+j])
		k := i + j + len(instMarker)
		out.WriteString(instMarker)
		// children until the matching close paren
		for k < len(a) {
			for k < len(a) && (a[k] == ' ' || a[k] == '\n') {
				k++
			}
			if k >= len(a) || a[k] == ')' {
				break
			}
			start := k
			k = skipSexp(a, k)
			child := a[start:k]
			if strings.Contains(child, instMarker) {
				child = filterInstances(child, goalSk) // inner quantifier first
			}
			foreign := false
			for _, m := range skRe.FindAllString(child, -1) {
				if !goalSk[m] {
					foreign = true
					break
				}
			}
			if foreign {
				continue
			}
			out.WriteString(child)
			out.WriteByte(' ')
		}
		out.WriteString("true")
		i = k
	}
	return out.String()
}

// skipSexp returns the index just after the s-expression starting at a[k].
func skipSexp(a string, k int) int {
	switch a[k] {
	case '(':
		depth := 0
		for k < len(a) {
			switch a[k] {
			case '(':
				depth++
			case ')':
				depth--
				if depth == 0 {
					return k + 1
				}
			case '"':
				k++
				for k < len(a) {
					if a[k] == '"' {
						if k+1 < len(a) && a[k+1] == '"' {
							k += 2
							continue
						}
						break
					}
					k++
				}
			case '|':
				k++
				for k < len(a) && a[k] != '|' {
					k++
				}
			}
			k++
		}
		return k
	case '"':
		k++
		for k < len(a) {
			if a[k] == '"' {
				if k+1 < len(a) && a[k+1] == '"' {
					k += 2
					continue
				}
				return k + 1
			}
			k++
		}
		return k
	case '|':
		k++
		for k < len(a) && a[k] != '|' {
			k++
		}
		return k + 1
	}
	for k < len(a) && a[k] != ' ' && a[k] != ')' && a[k] != '\n' {
		k++
	}
	return k
}
