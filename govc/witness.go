package main

// Witness replay: turn the solver's model of a failed obligation into a concrete call of the real function.
//
// For a failed obligation of a named (non-closure) function whose parameters are all of constructible types
// (booleans, integers, floats, strings, JSON-like interface values, string-keyed maps, slices, pointers to plain
// structs, *core.Context), the entry values of the parameters and of the heap they reach are read from the model
// (an interactive z3 session on the obligation's own query), a Go test calling the real function with those values
// is generated and run against /repo's working tree through `go test -overlay`. A sweep obligation is reproduced
// when the call panics; a postcondition is reproduced when its Go rendering evaluates to false after the call.
// Nothing here decides a property: a witness only upgrades a reported violation from "no-failing-input-found"
// to a replayed counterexample.

import (
	"bufio"
	"bytes"
	"context"
	"encoding/json"
	"fmt"
	"go/ast"
	"go/printer"
	"go/token"
	"go/types"
	"io"
	"math/big"
	"os"
	"os/exec"
	"path/filepath"
	"regexp"
	"sort"
	"strconv"
	"strings"
	"time"

	"golang.org/x/tools/go/ssa"
)

// ---------------------------------------------------------------------------
// s-expressions

type sexp struct {
	atom string
	str  bool // atom is a string literal (decoded)
	list []*sexp
	leaf bool
}

func (s *sexp) String() string {
	if s == nil {
		return "<nil>"
	}
	if s.leaf {
		if s.str {
			return strconv.Quote(s.atom)
		}
		return s.atom
	}
	var parts []string
	for _, c := range s.list {
		parts = append(parts, c.String())
	}
	return "(" + strings.Join(parts, " ") + ")"
}

func (s *sexp) head() string {
	if s.leaf {
		return s.atom
	}
	if len(s.list) > 0 && s.list[0].leaf {
		return s.list[0].atom
	}
	return ""
}

func decodeSMTString(raw string) string {
	// raw is the text between the quotes: "" is a quote, \u{X} / \uXXXX are escapes
	raw = strings.ReplaceAll(raw, `""`, `"`)
	re := regexp.MustCompile(`\\u\{([0-9a-fA-F]+)\}|\\u([0-9a-fA-F]{4})`)
	out := re.ReplaceAllStringFunc(raw, func(m string) string {
		h := strings.Trim(m[2:], "{}")
		n, err := strconv.ParseUint(h, 16, 32)
		if err != nil {
			return m
		}
		if n < 256 {
			return string([]byte{byte(n)}) // Go strings are byte strings: code points < 256 stand for bytes
		}
		return string(rune(n))
	})
	return out
}

func parseSexp(r *bufio.Reader) (*sexp, error) {
	// skip space
	for {
		c, err := r.ReadByte()
		if err != nil {
			return nil, err
		}
		if c == ' ' || c == '\n' || c == '\t' || c == '\r' {
			continue
		}
		switch c {
		case '(':
			s := &sexp{}
			for {
				// peek for ')'
				for {
					p, err := r.ReadByte()
					if err != nil {
						return nil, err
					}
					if p == ' ' || p == '\n' || p == '\t' || p == '\r' {
						continue
					}
					if p == ')' {
						return s, nil
					}
					r.UnreadByte()
					break
				}
				ch, err := parseSexp(r)
				if err != nil {
					return nil, err
				}
				s.list = append(s.list, ch)
			}
		case ')':
			return nil, fmt.Errorf("unexpected )")
		case '"':
			var b bytes.Buffer
			for {
				p, err := r.ReadByte()
				if err != nil {
					return nil, err
				}
				if p == '"' {
					q, err := r.ReadByte()
					if err == nil && q == '"' {
						b.WriteString(`""`)
						continue
					}
					if err == nil {
						r.UnreadByte()
					}
					break
				}
				b.WriteByte(p)
			}
			return &sexp{atom: decodeSMTString(b.String()), str: true, leaf: true}, nil
		case '|':
			var b bytes.Buffer
			b.WriteByte('|')
			for {
				p, err := r.ReadByte()
				if err != nil {
					return nil, err
				}
				b.WriteByte(p)
				if p == '|' {
					break
				}
			}
			return &sexp{atom: b.String(), leaf: true}, nil
		default:
			var b bytes.Buffer
			b.WriteByte(c)
			for {
				p, err := r.ReadByte()
				if err != nil {
					break
				}
				if p == ' ' || p == '\n' || p == '\t' || p == '\r' || p == '(' || p == ')' {
					r.UnreadByte()
					break
				}
				b.WriteByte(p)
			}
			return &sexp{atom: b.String(), leaf: true}, nil
		}
	}
}

// ---------------------------------------------------------------------------
// interactive solver session

type smtSession struct {
	cmd    *exec.Cmd
	in     io.WriteCloser
	out    *bufio.Reader
	cancel context.CancelFunc
}

func startSession(query string, timeoutS int) (*smtSession, string, error) {
	ctx, cancel := context.WithTimeout(context.Background(), time.Duration(timeoutS+30)*time.Second)
	cmd := exec.CommandContext(ctx, "z3-new", "-in", fmt.Sprintf("-T:%d", timeoutS+25))
	in, _ := cmd.StdinPipe()
	outp, _ := cmd.StdoutPipe()
	cmd.Stderr = nil
	if err := cmd.Start(); err != nil {
		cancel()
		return nil, "", err
	}
	s := &smtSession{cmd: cmd, in: in, out: bufio.NewReaderSize(outp, 1<<20), cancel: cancel}
	q := strings.Replace(query, "(get-model)\n", "", 1)
	go func() { io.WriteString(in, q) }()
	line, err := s.out.ReadString('\n')
	if err != nil {
		s.close()
		return nil, "", err
	}
	return s, strings.TrimSpace(line), nil
}

func (s *smtSession) close() {
	s.in.Close()
	s.cancel()
	s.cmd.Wait()
}

// value evaluates a term in the model; ok=false when the term mentions a symbol the (sliced) query does not declare:
// the obligation does not depend on it and any value will do.
func (s *smtSession) value(term string) (*sexp, bool, error) {
	if _, err := io.WriteString(s.in, "(get-value ("+term+"))\n"); err != nil {
		return nil, false, err
	}
	e, err := parseSexp(s.out)
	if err != nil {
		return nil, false, err
	}
	if os.Getenv("GOVC_WITNESS_DEBUG") != "" {
		fmt.Fprintf(os.Stderr, "witness: %s -> %s\n", term, e)
	}
	if e.head() == "error" {
		return nil, false, nil
	}
	if len(e.list) != 1 || len(e.list[0].list) != 2 {
		return nil, false, fmt.Errorf("unexpected get-value answer %s", e)
	}
	return e.list[0].list[1], true, nil
}

// ---------------------------------------------------------------------------
// model values

func orNil(e *sexp) *sexp {
	if e == nil {
		return &sexp{leaf: true, atom: "?"}
	}
	return e
}

func sexpInt(e *sexp) (*big.Int, bool) {
	if e.leaf {
		n, ok := new(big.Int).SetString(e.atom, 10)
		return n, ok
	}
	if e.head() == "-" && len(e.list) == 2 {
		n, ok := sexpInt(e.list[1])
		if !ok {
			return nil, false
		}
		return n.Neg(n), true
	}
	return nil, false
}

func sexpRat(e *sexp) (*big.Rat, bool) {
	if e.leaf {
		r, ok := new(big.Rat).SetString(e.atom)
		return r, ok
	}
	switch e.head() {
	case "-":
		if len(e.list) == 2 {
			r, ok := sexpRat(e.list[1])
			if !ok {
				return nil, false
			}
			return r.Neg(r), true
		}
	case "/":
		if len(e.list) == 3 {
			a, ok1 := sexpRat(e.list[1])
			b, ok2 := sexpRat(e.list[2])
			if !ok1 || !ok2 || b.Sign() == 0 {
				return nil, false
			}
			return a.Quo(a, b), true
		}
	}
	return nil, false
}

// ---------------------------------------------------------------------------
// witness construction

type witnessGen struct {
	V       *Verifier
	sc      *Script
	fn      *ssa.Function
	pkg     *types.Package
	sess    *smtSession
	stmts   []string
	imports map[string]bool
	memo    map[string]string
	busy    map[string]bool
	cands   []string
	nvar    int
	notes   []string
}

type witnessAbort struct{ why string }

func (g *witnessGen) abort(format string, a ...interface{}) {
	panic(witnessAbort{fmt.Sprintf(format, a...)})
}

func (g *witnessGen) fresh(prefix string) string {
	g.nvar++
	return fmt.Sprintf("%s%d", prefix, g.nvar)
}

func (g *witnessGen) typeString(t types.Type) string {
	return types.TypeString(t, func(p *types.Package) string {
		if p == g.pkg {
			return ""
		}
		g.imports[p.Path()] = true
		return p.Name()
	})
}

func (g *witnessGen) val(term string) *sexp {
	e, ok, err := g.sess.value(term)
	if err != nil {
		g.abort("solver session: %v", err)
	}
	if !ok {
		return nil
	}
	return e
}

func (g *witnessGen) pre(comp string) string { return sym("pre:" + comp) }

func intRange(b *types.Basic) (lo, hi *big.Int, ok bool) {
	mk := func(bits uint, signed bool) (*big.Int, *big.Int, bool) {
		one := big.NewInt(1)
		if signed {
			h := new(big.Int).Lsh(one, bits-1)
			return new(big.Int).Neg(h), new(big.Int).Sub(h, one), true
		}
		h := new(big.Int).Lsh(one, bits)
		return big.NewInt(0), new(big.Int).Sub(h, one), true
	}
	switch b.Kind() {
	case types.Int, types.Int64:
		return mk(64, true)
	case types.Int32:
		return mk(32, true)
	case types.Int16:
		return mk(16, true)
	case types.Int8:
		return mk(8, true)
	case types.Uint, types.Uint64, types.Uintptr:
		return mk(64, false)
	case types.Uint32:
		return mk(32, false)
	case types.Uint16:
		return mk(16, false)
	case types.Uint8:
		return mk(8, false)
	}
	return nil, nil, false
}

// typeOfID maps a dynamic type id of the model back to a Go type (nil when the id is none of the types the function mentions).
func (g *witnessGen) typeOfID(e *sexp) types.Type {
	n, ok := sexpInt(e)
	if !ok || !n.IsInt64() {
		return nil
	}
	g.sc.mu.Lock()
	defer g.sc.mu.Unlock()
	return g.sc.typeObjs[int(n.Int64())]
}

func (g *witnessGen) zero(t types.Type) string {
	return "*new(" + g.typeString(t) + ")"
}

// goValue renders the model value e (of the SMT sort of Go type t) as a Go expression of type t.
func (g *witnessGen) goValue(t types.Type, e *sexp, depth int) string {
	if e == nil {
		return g.zero(t)
	}
	if depth > 6 {
		g.abort("value nested deeper than 6 levels")
	}
	ts := g.typeString(t)
	switch u := t.Underlying().(type) {
	case *types.Basic:
		switch {
		case u.Kind() == types.UnsafePointer:
			g.abort("unsafe.Pointer parameter")
		case u.Info()&types.IsBoolean != 0:
			return ts + "(" + e.atom + ")"
		case u.Info()&types.IsInteger != 0:
			n, ok := sexpInt(e)
			if !ok {
				g.abort("cannot read integer %s", e)
			}
			lo, hi, _ := intRange(u)
			if lo != nil && (n.Cmp(lo) < 0 || n.Cmp(hi) > 0) {
				g.abort("model value %s of a %s is outside the machine range (integers are mathematical in the VC)", n, ts)
			}
			return ts + "(" + n.String() + ")"
		case u.Info()&types.IsFloat != 0:
			r, ok := sexpRat(e)
			if !ok {
				g.abort("cannot read real %s", e)
			}
			f, _ := r.Float64()
			return ts + "(" + strconv.FormatFloat(f, 'g', -1, 64) + ")"
		case u.Info()&types.IsString != 0:
			if !e.str {
				g.abort("cannot read string %s", e)
			}
			return ts + "(" + strconv.Quote(e.atom) + ")"
		}
		g.abort("basic type %s", ts)
	case *types.Interface:
		return g.goIface(t, u, e, depth)
	case *types.Map:
		n, ok := sexpInt(e)
		if !ok {
			g.abort("cannot read map reference %s", e)
		}
		return g.goMap(t, u, n, depth)
	case *types.Slice:
		return g.goSlice(t, u, e, depth)
	case *types.Pointer:
		n, ok := sexpInt(e)
		if !ok {
			g.abort("cannot read pointer %s", e)
		}
		return g.goPtr(t, u, n, depth)
	case *types.Struct:
		if e.leaf || len(e.list) != u.NumFields()+1 {
			if u.NumFields() == 0 {
				return ts + "{}"
			}
			g.abort("cannot read struct value %s", e)
		}
		var fs []string
		for i := 0; i < u.NumFields(); i++ {
			f := u.Field(i)
			if g.skipField(f) {
				continue
			}
			fs = append(fs, f.Name()+": "+g.goValue(f.Type(), e.list[i+1], depth+1))
		}
		return ts + "{" + strings.Join(fs, ", ") + "}"
	case *types.Signature:
		n, ok := sexpInt(e)
		if ok && n.Sign() == 0 {
			return "(" + ts + ")(nil)"
		}
		return g.goFunc(t, u, "govcStubCalls")
	case *types.Chan:
		n, ok := sexpInt(e)
		if ok && n.Sign() == 0 {
			return "(" + ts + ")(nil)"
		}
		return "make(" + ts + ", 16)"
	}
	g.abort("parameter of type %s is not constructible from a model", ts)
	return ""
}

// goFunc: a function value the model only knows as an opaque reference becomes a stub returning zero values.
func (g *witnessGen) goFunc(t types.Type, sig *types.Signature, counter string) string {
	var ps, rs, zs []string
	for i := 0; i < sig.Params().Len(); i++ {
		pt := g.typeString(sig.Params().At(i).Type())
		if sig.Variadic() && i == sig.Params().Len()-1 {
			pt = "..." + g.typeString(sig.Params().At(i).Type().(*types.Slice).Elem())
		}
		ps = append(ps, "_ "+pt)
	}
	for i := 0; i < sig.Results().Len(); i++ {
		rs = append(rs, g.typeString(sig.Results().At(i).Type()))
		zs = append(zs, g.zero(sig.Results().At(i).Type()))
	}
	g.notes = append(g.notes, "a function-valued input is replaced by a stub that counts its calls and returns zero values")
	body := counter + "++"
	if len(zs) > 0 {
		body += "; return " + strings.Join(zs, ", ")
	}
	return fmt.Sprintf("%s(func(%s) (%s) { %s })", g.typeString(t), strings.Join(ps, ", "), strings.Join(rs, ", "), body)
}

func (g *witnessGen) skipField(f *types.Var) bool {
	s := typeStr(f.Type())
	return strings.HasPrefix(s, "sync.") || strings.HasPrefix(s, "sync/atomic.") || f.Name() == "_"
}

func (g *witnessGen) goIface(t types.Type, u *types.Interface, e *sexp, depth int) string {
	ts := g.typeString(t)
	h := e.head()
	if h == "VNil" {
		if ts == "interface{}" || ts == "any" {
			return "interface{}(nil)"
		}
		return "(" + ts + ")(nil)"
	}
	if u.NumMethods() > 0 {
		if typeStr(t) == "error" {
			g.imports["errors"] = true
			return `error(errors.New("govc-witness"))`
		}
		g.abort("non-nil value of interface type %s", ts)
	}
	if e.leaf || len(e.list) != 3 {
		g.abort("cannot read interface value %s", e)
	}
	dyn := g.typeOfID(e.list[1])
	pay := e.list[2]
	basicOr := func(info types.BasicInfo, def types.Type) types.Type {
		if dyn != nil {
			if b, ok := dyn.Underlying().(*types.Basic); ok && b.Info()&info != 0 {
				return dyn
			}
		}
		return def
	}
	wrap := func(s string) string { return "interface{}(" + s + ")" }
	switch h {
	case "VBool":
		return wrap(g.goValue(basicOr(types.IsBoolean, types.Typ[types.Bool]), pay, depth+1))
	case "VInt":
		return wrap(g.goValue(basicOr(types.IsInteger, types.Typ[types.Int]), pay, depth+1))
	case "VReal":
		return wrap(g.goValue(basicOr(types.IsFloat, types.Typ[types.Float64]), pay, depth+1))
	case "VStr":
		return wrap(g.goValue(basicOr(types.IsString, types.Typ[types.String]), pay, depth+1))
	case "VRef":
		if dyn != nil {
			switch dyn.Underlying().(type) {
			case *types.Map, *types.Pointer, *types.Signature, *types.Chan:
				return wrap(g.goValue(dyn, pay, depth+1))
			}
		}
		// a reference of a dynamic type the function never mentions
		g.notes = append(g.notes, "an interface value of a dynamic type the function does not mention is rendered as *struct{govcOther int}")
		return wrap("&struct{ govcOther int }{}")
	case "VSlice":
		if dyn != nil {
			if _, ok := dyn.Underlying().(*types.Slice); ok {
				return wrap(g.goValue(dyn, pay, depth+1))
			}
		}
		g.notes = append(g.notes, "a slice of a dynamic type the function does not mention is rendered as []struct{govcOther int}")
		return wrap("[]struct{ govcOther int }{}")
	case "VBox":
		if dyn != nil {
			if _, ok := dyn.Underlying().(*types.Struct); ok {
				return wrap(g.zero(dyn))
			}
		}
		return wrap("struct{ govcOther int }{}")
	}
	g.abort("cannot read interface value %s", e)
	return ""
}

func (g *witnessGen) goMap(t types.Type, u *types.Map, ref *big.Int, depth int) string {
	ts := g.typeString(t)
	if ref.Sign() == 0 {
		return "(" + ts + ")(nil)"
	}
	key := "map|" + typeStr(t) + "|" + ref.String()
	if v, ok := g.memo[key]; ok {
		return v
	}
	if g.busy[key] {
		g.abort("cyclic map value")
	}
	g.busy[key] = true
	defer delete(g.busy, key)
	name := g.fresh("m")
	var entries []string
	count := 0
	kb, isStr := u.Key().Underlying().(*types.Basic)
	r := ref.String()
	if ref.Sign() < 0 {
		r = "(- " + new(big.Int).Neg(ref).String() + ")"
	}
	if isStr && kb.Info()&types.IsString != 0 {
		for _, c := range g.cands {
			k := strLit(c).S
			has := g.val(fmt.Sprintf("(select (select %s %s) %s)", g.pre(compMapDom(u)), r, k))
			if has == nil || has.atom != "true" {
				continue
			}
			v := g.val(fmt.Sprintf("(select (select %s %s) %s)", g.pre(compMapVal(u)), r, k))
			entries = append(entries, g.typeString(u.Key())+"("+strconv.Quote(c)+"): "+g.goValue(u.Elem(), v, depth+1))
			count++
		}
		// pad to the model's length with keys the function never names
		if l := g.val(fmt.Sprintf("(select %s %s)", g.pre(compMapLen(u)), r)); l != nil {
			if n, ok := sexpInt(l); ok && n.IsInt64() {
				want := int(n.Int64())
				if want > 64 {
					g.notes = append(g.notes, fmt.Sprintf("the model gives a map %d entries; only the keys the function names are built", want))
					want = count
				}
				for i := 0; count < want; i++ {
					entries = append(entries, fmt.Sprintf("%s(\"govc-filler-%d\"): %s", g.typeString(u.Key()), i, g.zero(u.Elem())))
					count++
				}
			}
		}
	} else {
		g.notes = append(g.notes, "a map with non-string keys is rendered empty")
	}
	g.stmts = append(g.stmts, fmt.Sprintf("%s := %s{%s}", name, ts, strings.Join(entries, ", ")))
	g.memo[key] = name
	return name
}

func (g *witnessGen) goSlice(t types.Type, u *types.Slice, e *sexp, depth int) string {
	ts := g.typeString(t)
	if e.leaf || e.head() != "mkSlice" || len(e.list) != 4 {
		if e.leaf && e.atom == "nilSlice" {
			return "(" + ts + ")(nil)"
		}
		g.abort("cannot read slice %s", e)
	}
	arr, ok1 := sexpInt(e.list[1])
	off, ok2 := sexpInt(e.list[2])
	ln, ok3 := sexpInt(e.list[3])
	if !ok1 || !ok2 || !ok3 {
		g.abort("cannot read slice %s", e)
	}
	if ln.Sign() < 0 || !ln.IsInt64() || ln.Int64() > 512 {
		g.abort("model slice of length %s", ln)
	}
	if arr.Sign() == 0 && ln.Sign() == 0 {
		return "(" + ts + ")(nil)"
	}
	var elems []string
	a := arr.String()
	if arr.Sign() < 0 {
		a = "(- " + new(big.Int).Neg(arr).String() + ")"
	}
	for i := int64(0); i < ln.Int64(); i++ {
		idx := new(big.Int).Add(off, big.NewInt(i))
		is := idx.String()
		if idx.Sign() < 0 {
			is = "(- " + new(big.Int).Neg(idx).String() + ")"
		}
		v := g.val(fmt.Sprintf("(select (select %s %s) %s)", g.pre(compElem(u.Elem())), a, is))
		elems = append(elems, g.goValue(u.Elem(), v, depth+1))
	}
	return ts + "{" + strings.Join(elems, ", ") + "}"
}

func (g *witnessGen) goPtr(t types.Type, u *types.Pointer, ref *big.Int, depth int) string {
	ts := g.typeString(t)
	if ref.Sign() == 0 {
		return "(" + ts + ")(nil)"
	}
	el := u.Elem()
	es := typeStr(el)
	if strings.HasSuffix(es, "core.Context") {
		// a context is built by the real constructor: only its identity matters to the functions under replay
		if g.pkg.Name() == "core" {
			return `NewContext("govc-witness")`
		}
		g.imports["github.com/Comcast/rulio/core"] = true
		return `core.NewContext("govc-witness")`
	}
	key := "ptr|" + typeStr(t) + "|" + ref.String()
	if v, ok := g.memo[key]; ok {
		return v
	}
	if g.busy[key] {
		g.abort("cyclic pointer structure")
	}
	g.busy[key] = true
	defer delete(g.busy, key)
	r := ref.String()
	if ref.Sign() < 0 {
		r = "(- " + new(big.Int).Neg(ref).String() + ")"
	}
	name := g.fresh("p")
	st, isStruct := el.Underlying().(*types.Struct)
	if !isStruct {
		v := g.val(fmt.Sprintf("(select %s %s)", g.pre(compCell(el)), r))
		tmp := g.fresh("c")
		g.stmts = append(g.stmts, fmt.Sprintf("%s := %s", tmp, g.goValue(el, v, depth+1)), fmt.Sprintf("%s := &%s", name, tmp))
		g.memo[key] = name
		return name
	}
	if n, ok := el.(*types.Named); ok && n.Obj().Pkg() != nil && !strings.Contains(n.Obj().Pkg().Path(), "Comcast/rulio") {
		g.abort("pointer to a dependency's struct %s", es)
	}
	var fs []string
	var fill func(s *types.Struct, path string) []string
	fill = func(s *types.Struct, path string) []string {
		var out []string
		for i := 0; i < s.NumFields(); i++ {
			f := s.Field(i)
			if g.skipField(f) {
				continue
			}
			p := f.Name()
			if path != "" {
				p = path + "." + f.Name()
			}
			if inner, ok := f.Type().Underlying().(*types.Struct); ok {
				sub := fill(inner, p)
				if len(sub) > 0 {
					out = append(out, f.Name()+": "+g.typeString(f.Type())+"{"+strings.Join(sub, ", ")+"}")
				}
				continue
			}
			v := g.val(fmt.Sprintf("(select %s %s)", g.pre(compField(el, p)), r))
			if sg, ok := f.Type().Underlying().(*types.Signature); ok {
				// a function-valued field is opaque to the VC: a stub stands for it unless the model says nil
				if n, isInt := sexpInt(orNil(v)); v == nil || !isInt || n.Sign() != 0 {
					out = append(out, f.Name()+": "+g.goFunc(f.Type(), sg, "govcStubCalls"))
				}
				continue
			}
			if v == nil {
				continue // the obligation does not depend on this field
			}
			out = append(out, f.Name()+": "+g.goValue(f.Type(), v, depth+1))
		}
		return out
	}
	fs = fill(st, "")
	g.stmts = append(g.stmts, fmt.Sprintf("%s := &%s{%s}", name, g.typeString(el), strings.Join(fs, ", ")))
	g.memo[key] = name
	return name
}

// ---------------------------------------------------------------------------
// postcondition rendering (subset): parameters, results, literals, operators, len, has, is, type assertions

type postGen struct {
	g        *witnessGen
	params   map[string]string
	results  map[string]string
	vars     map[string]string // macro parameters -> rendered argument
	olds     []string          // statements run before the call (snapshots for old(...))
	inOld    bool
	funcCtrs map[string]string // func-valued parameter -> call counter variable
	depth    int
}

// exprType: a coarse static type for the two branches of ite (needed to write the closure's result type).
func (p *postGen) exprType(e ast.Expr) string {
	switch x := e.(type) {
	case *ast.ParenExpr:
		return p.exprType(x.X)
	case *ast.TypeAssertExpr:
		return p.typ(x.Type)
	case *ast.BasicLit:
		switch x.Kind {
		case token.STRING:
			return "string"
		case token.FLOAT:
			return "float64"
		}
		return ""
	case *ast.CallExpr:
		if id, ok := x.Fun.(*ast.Ident); ok {
			switch id.Name {
			case "ite":
				if t := p.exprType(x.Args[1]); t != "" {
					return t
				}
				return p.exprType(x.Args[2])
			case "int64", "int", "float64", "string", "bool":
				return id.Name
			case "len", "calls":
				return "int"
			case "has", "is", "implies", "iff":
				return "bool"
			case "trunc", "floordiv":
				return "int64"
			}
		}
	case *ast.BinaryExpr:
		switch x.Op {
		case token.EQL, token.NEQ, token.LSS, token.LEQ, token.GTR, token.GEQ, token.LAND, token.LOR:
			return "bool"
		}
		if t := p.exprType(x.X); t != "" {
			return t
		}
		return p.exprType(x.Y)
	case *ast.UnaryExpr:
		if x.Op == token.NOT {
			return "bool"
		}
		return p.exprType(x.X)
	}
	return ""
}

func (p *postGen) expr(e ast.Expr) string {
	g := p.g
	switch x := e.(type) {
	case *ast.ParenExpr:
		return "(" + p.expr(x.X) + ")"
	case *ast.BasicLit:
		return x.Value
	case *ast.Ident:
		switch x.Name {
		case "nil", "true", "false":
			return x.Name
		}
		if v, ok := p.vars[x.Name]; ok {
			return v
		}
		if v, ok := p.results[x.Name]; ok {
			if p.inOld {
				g.abort("old(…) of a result")
			}
			return v
		}
		if v, ok := p.params[x.Name]; ok {
			return v
		}
		if obj := g.pkg.Scope().Lookup(x.Name); obj != nil {
			switch obj.(type) {
			case *types.Const, *types.TypeName, *types.Var:
				return x.Name
			}
		}
		g.abort("postcondition mentions %s, which has no Go rendering", x.Name)
	case *ast.UnaryExpr:
		return x.Op.String() + p.expr(x.X)
	case *ast.BinaryExpr:
		return "(" + p.expr(x.X) + " " + x.Op.String() + " " + p.expr(x.Y) + ")"
	case *ast.TypeAssertExpr:
		return p.expr(x.X) + ".(" + p.typ(x.Type) + ")"
	case *ast.IndexExpr:
		return p.expr(x.X) + "[" + p.expr(x.Index) + "]"
	case *ast.SelectorExpr:
		return p.expr(x.X) + "." + x.Sel.Name
	case *ast.StarExpr:
		return "(*" + p.expr(x.X) + ")"
	case *ast.CallExpr:
		if id, ok := x.Fun.(*ast.Ident); ok {
			switch id.Name {
			case "implies":
				return "(!(" + p.expr(x.Args[0]) + ") || (" + p.expr(x.Args[1]) + "))"
			case "iff":
				return "((" + p.expr(x.Args[0]) + ") == (" + p.expr(x.Args[1]) + "))"
			case "len":
				return "len(" + p.expr(x.Args[0]) + ")"
			case "has":
				return "func() bool { _, ok := " + p.expr(x.Args[0]) + "[" + p.expr(x.Args[1]) + "]; return ok }()"
			case "is":
				return "func() bool { _, ok := interface{}(" + p.expr(x.Args[0]) + ").(" + p.typ(x.Args[1]) + "); return ok }()"
			case "old":
				// evaluated before the call and kept in a snapshot variable
				if p.inOld {
					return p.expr(x.Args[0])
				}
				p.inOld = true
				inner := p.expr(x.Args[0])
				p.inOld = false
				name := g.fresh("old")
				p.olds = append(p.olds, name+" := "+inner, "_ = "+name)
				return name
			case "calls":
				if a, ok := x.Args[0].(*ast.Ident); ok {
					if c, ok := p.funcCtrs[a.Name]; ok {
						if p.inOld {
							return "0"
						}
						return c
					}
				}
				g.abort("calls(…) of something that is not a function-valued parameter")
			case "ite":
				t := p.exprType(x.Args[1])
				if t == "" {
					t = p.exprType(x.Args[2])
				}
				if t == "" {
					g.abort("cannot type an ite(…) of the postcondition")
				}
				return "func() " + t + " { if " + p.expr(x.Args[0]) + " { return " + p.expr(x.Args[1]) + " }; return " + p.expr(x.Args[2]) + " }()"
			case "floordiv":
				return "func() int64 { a, b := int64(" + p.expr(x.Args[0]) + "), int64(" + p.expr(x.Args[1]) + "); q := a / b; if (a%b != 0) && ((a < 0) != (b < 0)) { q-- }; return q }()"
			case "string", "int", "int64", "float64", "bool":
				return id.Name + "(" + p.expr(x.Args[0]) + ")"
			}
			if d, ok := g.V.specs.defines[id.Name]; ok && len(d.Params) == len(x.Args) && p.depth < 10 {
				var rendered []string
				for i := range d.Params {
					rendered = append(rendered, "("+p.expr(x.Args[i])+")")
				}
				q := *p
				q.vars = map[string]string{}
				for k, v := range p.vars {
					q.vars[k] = v
				}
				for i, pn := range d.Params {
					q.vars[pn] = rendered[i]
				}
				q.depth = p.depth + 1
				out := q.expr(d.Body)
				p.olds = q.olds
				return "(" + out + ")"
			}
			g.abort("postcondition uses %s(…), which has no Go rendering", id.Name)
		}
	}
	g.abort("postcondition form %T has no Go rendering", e)
	return ""
}

func (p *postGen) typ(e ast.Expr) string {
	var b bytes.Buffer
	if err := printerFprint(&b, e); err != nil {
		p.g.abort("type expression: %v", err)
	}
	return b.String()
}

// ---------------------------------------------------------------------------
// driver

var stringLitRe = regexp.MustCompile(`"((?:[^"]|"")*)"`)

func witnessable(fn *ssa.Function) string {
	if fn == nil {
		return "no function"
	}
	if fn.Parent() != nil {
		return "the obligation is in a function literal"
	}
	if fn.Synthetic != "" {
		return "synthetic function"
	}
	if len(fn.TypeArgs()) > 0 || fn.Signature.TypeParams() != nil || fn.Signature.RecvTypeParams() != nil {
		return "generic function"
	}
	if fn.Name() == "init" || fn.Pkg == nil {
		return "package initialiser"
	}
	return ""
}

var panicClass = map[string]*regexp.Regexp{
	"typeassert":  regexp.MustCompile(`interface conversion`),
	"index":       regexp.MustCompile(`index out of range|out of range`),
	"slicebounds": regexp.MustCompile(`slice bounds out of range|out of range`),
	"nilderef":    regexp.MustCompile(`nil pointer dereference|invalid memory address`),
	"nilmap":      regexp.MustCompile(`assignment to entry in nil map`),
	"divzero":     regexp.MustCompile(`divide by zero`),
	"makeslice":   regexp.MustCompile(`makeslice|len out of range|cap out of range`),
	"panic":       regexp.MustCompile(`.`),
}

// buildWitness returns the text of a Go test file that calls o's function with the inputs of the model.
func (V *Verifier) buildWitness(o *Obligation, timeoutS int) (src string, pkgDir string, notes []string, err error) {
	fn := o.Root
	if why := witnessable(fn); why != "" {
		return "", "", nil, fmt.Errorf("%s", why)
	}
	if o.Kind != "ensures" && !sweepKinds[o.Kind] {
		return "", "", nil, fmt.Errorf("obligations of kind %q are about an intermediate state, not about the result of a call", o.Kind)
	}
	var clause *Clause
	if o.Kind == "ensures" {
		c := V.contracts[funcName(fn)]
		if c != nil {
			for i := range c.Ensures {
				if c.Ensures[i].Label != "" && c.Ensures[i].Label == o.Label {
					clause = &c.Ensures[i]
				}
			}
		}
		if clause == nil || o.Inline {
			return "", "", nil, fmt.Errorf("postcondition clause not found")
		}
	}
	query := o.Script.query(o.N, []Term{o.Hyp, not(o.Goal)}, false)
	sess, status, err := startSession(query, timeoutS)
	if err != nil {
		return "", "", nil, err
	}
	defer sess.close()
	if status != "sat" {
		return "", "", nil, fmt.Errorf("z3 5.1 answered %q on the obligation (no model to read)", status)
	}
	g := &witnessGen{V: V, sc: o.Script, fn: fn, pkg: fn.Pkg.Pkg, sess: sess, imports: map[string]bool{"testing": true, "fmt": true, "strings": true, "runtime/debug": true},
		memo: map[string]string{}, busy: map[string]bool{}}
	seen := map[string]bool{}
	for _, m := range stringLitRe.FindAllStringSubmatch(query, -1) {
		s := decodeSMTString(m[1])
		if !seen[s] && len(s) < 200 {
			seen[s] = true
			g.cands = append(g.cands, s)
		}
	}
	defer func() {
		if r := recover(); r != nil {
			if a, ok := r.(witnessAbort); ok {
				err = fmt.Errorf("%s", a.why)
				return
			}
			panic(r)
		}
	}()
	// string parameters' own values are key candidates too
	for _, p := range fn.Params {
		if b, ok := p.Type().Underlying().(*types.Basic); ok && b.Info()&types.IsString != 0 {
			if v := g.val(sym("p:" + p.Name())); v != nil && v.str && !seen[v.atom] {
				seen[v.atom] = true
				g.cands = append(g.cands, v.atom)
			}
		}
	}
	sort.Strings(g.cands)
	params := map[string]string{}
	funcCtrs := map[string]string{}
	var args []string
	for i, p := range fn.Params {
		v := g.val(sym("p:" + p.Name()))
		name := fmt.Sprintf("in%d", i)
		var expr string
		if sg, ok := p.Type().Underlying().(*types.Signature); ok {
			if n, isInt := sexpInt(orNil(v)); v != nil && isInt && n.Sign() == 0 {
				expr = "(" + g.typeString(p.Type()) + ")(nil)"
			} else {
				ctr := fmt.Sprintf("calls%d", i)
				g.stmts = append(g.stmts, "var "+ctr+" int", "_ = "+ctr)
				funcCtrs[p.Name()] = ctr
				expr = g.goFunc(p.Type(), sg, ctr)
			}
		} else {
			expr = g.goValue(p.Type(), v, 0)
		}
		g.stmts = append(g.stmts, fmt.Sprintf("var %s %s = %s", name, g.typeString(p.Type()), expr), "_ = "+name)
		params[p.Name()] = name
		args = append(args, name)
	}
	call := ""
	sig := fn.Signature
	rest := args
	if sig.Recv() != nil {
		call = "(" + args[0] + ")." + fn.Name()
		rest = args[1:]
	} else {
		call = fn.Name()
	}
	if sig.Variadic() && len(rest) > 0 {
		rest = append(append([]string(nil), rest[:len(rest)-1]...), rest[len(rest)-1]+"...")
	}
	call += "(" + strings.Join(rest, ", ") + ")"
	results := map[string]string{}
	var rnames []string
	for i := 0; i < sig.Results().Len(); i++ {
		rn := fmt.Sprintf("out%d", i)
		rnames = append(rnames, rn)
		results[fmt.Sprintf("result%d", i)] = rn
		if n := sig.Results().At(i).Name(); n != "" && n != "_" {
			results[n] = rn
		}
	}
	if len(rnames) == 1 {
		results["result"] = rnames[0]
	}
	post := ""
	var olds []string
	if clause != nil {
		pg := &postGen{g: g, params: params, results: results, funcCtrs: funcCtrs}
		post = pg.expr(clause.Expr)
		olds = pg.olds
	}
	var b strings.Builder
	fmt.Fprintf(&b, "package %s\n\n// generated by govc: witness for obligation %s\n\nimport (\n", fn.Pkg.Pkg.Name(), o.Name)
	for _, im := range sortedKeys(g.imports) {
		fmt.Fprintf(&b, "\t%q\n", im)
	}
	b.WriteString(")\n\nvar govcStubCalls int\n\nfunc TestGovcWitness(t *testing.T) {\n")
	for _, s := range g.stmts {
		b.WriteString("\t" + s + "\n")
	}
	b.WriteString("\tfunc() {\n\t\tdefer func() {\n\t\t\tif r := recover(); r != nil {\n\t\t\t\tfmt.Printf(\"GOVC-WITNESS-PANIC %v\\n\", r)\n\t\t\t\tfmt.Printf(\"GOVC-WITNESS-STACK %s\\n\", strings.ReplaceAll(string(debug.Stack()), \"\\n\", \" | \"))\n\t\t\t}\n\t\t}()\n")
	for _, s := range olds {
		b.WriteString("\t\t" + s + "\n")
	}
	for i := range fn.Params {
		fmt.Fprintf(&b, "\t\tfmt.Printf(\"GOVC-WITNESS-INPUT %s = %%#v\\n\", in%d)\n", fn.Params[i].Name(), i)
	}
	if len(rnames) > 0 {
		fmt.Fprintf(&b, "\t\t%s := %s\n", strings.Join(rnames, ", "), call)
		for _, r := range rnames {
			fmt.Fprintf(&b, "\t\tfmt.Printf(\"GOVC-WITNESS-OUTPUT %s = %%#v\\n\", %s)\n", r, r)
		}
	} else {
		fmt.Fprintf(&b, "\t\t%s\n", call)
	}
	b.WriteString("\t\tfmt.Printf(\"GOVC-WITNESS-RETURNED\\n\")\n")
	if post != "" {
		fmt.Fprintf(&b, "\t\tfmt.Printf(\"GOVC-WITNESS-POST %%v\\n\", %s)\n", post)
	}
	b.WriteString("\t}()\n}\n")
	dir := ""
	if len(fn.Pkg.Pkg.Path()) > 0 {
		dir = strings.TrimPrefix(fn.Pkg.Pkg.Path(), "github.com/Comcast/rulio")
		dir = strings.TrimPrefix(dir, "/")
	}
	return b.String(), dir, g.notes, nil
}

// runWitness runs a generated test against the working tree (overlay: nothing is written into the repository).
func runWitness(src, pkgDir, workDir string) (string, error) {
	repo := repoDir
	os.MkdirAll(workDir, 0o755)
	testFile := filepath.Join(workDir, "zz_govc_witness_test.go")
	if err := os.WriteFile(testFile, []byte(src), 0o644); err != nil {
		return "", err
	}
	ov := map[string]map[string]string{"Replace": {filepath.Join(repo, pkgDir, "zz_govc_witness_test.go"): testFile}}
	ovb, _ := json.Marshal(ov)
	ovFile := filepath.Join(workDir, "overlay.json")
	os.WriteFile(ovFile, ovb, 0o644)
	ctx, cancel := context.WithTimeout(context.Background(), 240*time.Second)
	defer cancel()
	cmd := exec.CommandContext(ctx, "go", "test", "-overlay", ovFile, "-vet=off", "-v", "-count=1", "-timeout", "60s", "-run", "^TestGovcWitness$", "./"+pkgDir)
	cmd.Dir = repo
	cmd.Env = append(os.Environ(), "GOFLAGS=-mod=mod", "GOPROXY=off", "GOSUMDB=off", "GOTOOLCHAIN=local")
	out, err := cmd.CombinedOutput()
	return string(out), err
}

// witnessReplay: the whole pipeline for one failed obligation.
func (V *Verifier) witnessReplay(o *Obligation, workDir string, timeoutS int) *replayResult {
	src, pkgDir, notes, err := V.buildWitness(o, timeoutS)
	if err != nil {
		return &replayResult{text: "witness replay: not attempted: " + err.Error()}
	}
	dir := filepath.Join(workDir, "witness", safeFile(o.Name))
	out, _ := runWitness(src, pkgDir, dir)
	var b strings.Builder
	b.WriteString("witness replay: the model's inputs were turned into a call of the real function (go test -overlay on the working tree)\n")
	for _, n := range notes {
		b.WriteString("  note: " + n + "\n")
	}
	var keep []string
	for _, l := range strings.Split(out, "\n") {
		if strings.HasPrefix(l, "GOVC-WITNESS") || strings.Contains(l, "panic:") || strings.HasPrefix(l, "FAIL") || strings.Contains(l, "zz_govc_witness_test.go") {
			if len(l) > 600 {
				l = l[:600] + "…"
			}
			keep = append(keep, "  "+l)
		}
	}
	b.WriteString(strings.Join(keep, "\n") + "\n")
	confirmed := false
	switch {
	case sweepKinds[o.Kind]:
		m := regexp.MustCompile(`GOVC-WITNESS-PANIC (.*)`).FindStringSubmatch(out)
		st := regexp.MustCompile(`GOVC-WITNESS-STACK (.*)`).FindStringSubmatch(out)
		if m != nil && st != nil && panicClass[o.Kind].MatchString(m[1]) && strings.Contains(st[1], "/"+o.Pos+" ") {
			confirmed = true
			b.WriteString("REPRODUCED: the real function panics at " + o.Pos + " on these inputs: " + m[1] + "\n")
		} else if m != nil {
			b.WriteString("not reproduced: the call panics, but not with the failure of this obligation at " + o.Pos + " (" + m[1] + ")\n")
		} else if strings.Contains(out, "GOVC-WITNESS-RETURNED") {
			b.WriteString("not reproduced: the real function returned normally on the model's inputs (the model relies on a part of the state the witness does not construct)\n")
		} else {
			b.WriteString("not reproduced: the witness did not run to the call (see output)\n")
		}
	case o.Kind == "ensures":
		if strings.Contains(out, "GOVC-WITNESS-POST false") {
			confirmed = true
			b.WriteString("REPRODUCED: after the call on these inputs the postcondition evaluates to false on the real code\n")
		} else if strings.Contains(out, "GOVC-WITNESS-POST true") {
			b.WriteString("not reproduced: the postcondition holds on the model's inputs when run (the model relies on a part of the state the witness does not construct)\n")
		} else {
			b.WriteString("not reproduced: the witness did not evaluate the postcondition (see output)\n")
		}
	}
	b.WriteString("\nwitness test (" + filepath.Join(dir, "zz_govc_witness_test.go") + "):\n" + src)
	return &replayResult{text: b.String(), confirmed: confirmed}
}

func printerFprint(b *bytes.Buffer, e ast.Expr) error {
	return printer.Fprint(b, token.NewFileSet(), e)
}
