package main

import (
	"encoding/json"
	"flag"
	"fmt"
	"os"
	"os/exec"
	"path/filepath"
	"regexp"
	"sort"
	"strconv"
	"strings"
	"sync"
	"time"

	"golang.org/x/tools/go/ssa"
)

var verifDir = "/verif"

// PropConfig: what a property's check consists of (/verif/props.json).
type PropConfig struct {
	ID          string   `json:"id"`
	Functions   []string `json:"functions"`   // extra functions (beyond those whose contract carries a clause tagged with the id); regexps on funcName
	Sweep       []string `json:"sweep"`       // functions swept for panic-freedom (regexps)
	SweepRoots  []string `json:"sweep_roots"` // sweep everything reachable from these (regexps)
	Lock        []string `json:"lock"`
	LockExclude []string `json:"lock_exclude"`
	Undecided   []string `json:"undecided"` // clauses of the property this check does not decide (text for evidence)
	Bounded     []string `json:"bounded"`
	Assumed     []string `json:"assumed"`
}

type KnownFinding struct {
	Property   string `json:"property"`
	Obligation string `json:"obligation"`
	Pattern    string `json:"pattern,omitempty"` // regexp over obligation names (instead of one exact name)
	What       string `json:"what"`
	Defect     string `json:"defect,omitempty"`
	Replay     string `json:"replay,omitempty"` // name of a replay test in /verif/replays proving the finding on the real code
}

type Baseline struct {
	Property  string            `json:"property"`
	Claimed   []string          `json:"claimed"`   // obligations discharged on the unchanged tree
	Unclaimed map[string]string `json:"unclaimed"` // obligation -> reason it is not claimed (undecided by this engine on the unchanged tree)
}

var sweepKinds = map[string]bool{"typeassert": true, "index": true, "nilderef": true, "nilmap": true, "divzero": true, "panic": true, "slicebounds": true, "makeslice": true}
var lockKinds = map[string]bool{"lock": true, "guard": true}

func loadJSON(path string, v interface{}) error {
	b, err := os.ReadFile(path)
	if err != nil {
		return err
	}
	return json.Unmarshal(b, v)
}

func matchAny(pats []string, s string) bool {
	for _, p := range pats {
		re, err := regexp.Compile("^(?:" + p + ")$")
		if err != nil {
			fmt.Fprintf(os.Stderr, "govc: engine error: bad pattern %q: %v\n", p, err)
			os.Exit(2)
		}
		if re.MatchString(s) {
			return true
		}
	}
	return false
}

var occurrenceRe = regexp.MustCompile(`~\d+$`)

// occurrenceStem: an obligation name without its occurrence suffix (~2, ~3, ...).
func occurrenceStem(n string) string { return occurrenceRe.ReplaceAllString(n, "") }

func labelHasProp(label, prop string) bool {
	p := propOf(label)
	if p == "" {
		return false
	}
	for _, q := range strings.Split(p, "+") {
		if q == prop {
			return true
		}
	}
	return false
}

type selected struct {
	o       *Obligation
	support bool
}

// runCheck: `check -p <id>` runs one property; `check -p all` (or a comma-separated list) runs several in one process,
// loading the tree once; the exit code is the worst of the individual ones.
func runCheck(args []string) int {
	for i, a := range args {
		if a == "-p" && i+1 < len(args) && (args[i+1] == "all" || strings.Contains(args[i+1], ",")) {
			var ids []string
			if args[i+1] == "all" {
				var cfgs []PropConfig
				vd := verifDir
				if d := os.Getenv("GOVC_VERIF"); d != "" {
					vd = d
				}
				if err := loadJSON(filepath.Join(vd, "props.json"), &cfgs); err != nil {
					fmt.Fprintln(os.Stderr, "govc: engine error:", err)
					return 2
				}
				for _, c := range cfgs {
					ids = append(ids, c.ID)
				}
				sort.Strings(ids)
			} else {
				ids = strings.Split(args[i+1], ",")
			}
			worst := 0
			for _, id := range ids {
				sub := append(append([]string{}, args[:i+1]...), id)
				sub = append(sub, args[i+2:]...)
				rc := runCheckOne(sub)
				fmt.Printf("EXIT %s %d\n", id, rc)
				if rc > worst {
					worst = rc
				}
			}
			return worst
		}
	}
	return runCheckOne(args)
}

func runCheckOne(args []string) int {
	fs := flag.NewFlagSet("check", flag.ExitOnError)
	prop := fs.String("p", "", "property id")
	tier := fs.String("tier", "", "quick|thorough")
	writeBaseline := fs.Bool("write-baseline", false, "record the obligations discharged now as the baseline (explicit step, never at check time)")
	verbose := fs.Bool("v", false, "verbose")
	fs.Parse(args)
	if *tier == "" {
		*tier = os.Getenv("VERIF_TIER")
	}
	if *tier == "" {
		*tier = "quick"
	}
	seed := 0
	if s := os.Getenv("VERIF_SEED"); s != "" {
		seed, _ = strconv.Atoi(s)
	}
	if d := os.Getenv("GOVC_VERIF"); d != "" {
		verifDir = d
	}
	start := time.Now()
	var cfgs []PropConfig
	if err := loadJSON(filepath.Join(verifDir, "props.json"), &cfgs); err != nil {
		fmt.Fprintln(os.Stderr, "govc: engine error:", err)
		return 2
	}
	var cfg *PropConfig
	for i := range cfgs {
		if cfgs[i].ID == *prop {
			cfg = &cfgs[i]
		}
	}
	if cfg == nil {
		fmt.Fprintln(os.Stderr, "govc: engine error: unknown property", *prop)
		return 2
	}
	var known []KnownFinding
	loadJSON(filepath.Join(verifDir, "known_findings.json"), &known)
	knownBy := map[string]*KnownFinding{}
	for i := range known {
		if known[i].Property == *prop {
			knownBy[known[i].Obligation] = &known[i]
		}
	}
	var base Baseline
	haveBase := loadJSON(filepath.Join(verifDir, "baseline", *prop+".json"), &base) == nil
	if len(shapeFnAlias) > 0 {
		// a function under contract was renamed: the baseline names its obligations by the old name
		ren := func(n string) string {
			for o, nw := range shapeFnAlias {
				n = strings.ReplaceAll(n, o+"#", nw+"#")
				n = strings.ReplaceAll(n, o+"$", nw+"$")
				n = strings.ReplaceAll(n, "requires:"+o+":", "requires:"+nw+":")
			}
			return n
		}
		for i, n := range base.Claimed {
			base.Claimed[i] = ren(n)
		}
		nu := map[string]string{}
		for k, v := range base.Unclaimed {
			nu[ren(k)] = v
		}
		base.Unclaimed = nu
	}
	if len(shapeRenames) > 0 {
		// obligations of the sweep are named by source text: a renamed local renames them
		ren := func(n string) string {
			i := strings.Index(n, "#")
			if i < 0 {
				return n
			}
			m := shapeRenames[n[:i]]
			j := strings.Index(n[i:], ":")
			if m == nil || j < 0 || !isSweepName(n) {
				return n
			}
			return n[:i+j+1] + renameIdents(n[i+j+1:], m)
		}
		for i, n := range base.Claimed {
			base.Claimed[i] = ren(n)
		}
		nu := map[string]string{}
		for k, v := range base.Unclaimed {
			nu[ren(k)] = v
		}
		base.Unclaimed = nu
	}
	if base.Unclaimed == nil {
		base.Unclaimed = map[string]string{}
	}

	P, V := loadAll()
	loadS := time.Since(start).Seconds()

	// functions to verify
	type job struct {
		fn       *ssa.Function
		sweep    bool
		lock     bool
		contract bool
	}
	jobs := map[string]*job{}
	get := func(fn *ssa.Function) *job {
		n := funcName(fn)
		if j, ok := jobs[n]; ok {
			return j
		}
		j := &job{fn: fn}
		jobs[n] = j
		return j
	}
	var missing []string
	for _, k := range sortedKeys(V.contracts) {
		c := V.contracts[k]
		if !c.Props[*prop] || c.Trusted || strings.Contains(k, ":") {
			continue
		}
		fn := P.Funcs[k]
		if fn == nil {
			missing = append(missing, k)
			continue
		}
		get(fn).contract = true
	}
	// callers of functions / interface methods whose contract has a precondition tagged with this property:
	// the precondition is checked at their call sites.
	reqKeys := map[string]bool{}
	for _, k := range sortedKeys(V.contracts) {
		for _, r := range V.contracts[k].Requires {
			if labelHasProp(r.Label, *prop) {
				reqKeys[k] = true
			}
		}
	}
	// a private helper that is new since the contracts were written and has no contract is not verified on its own (it is
	// inlined where it is called, like the statements it was made of): its callers stand in for it
	newHelper := func(fn *ssa.Function) bool {
		n := funcName(fn)
		return shapeNewFuncs[n] && V.contracts[n] == nil && fn.Object() != nil && !fn.Object().Exported() &&
			instrCount(fn) <= maxInlineInstrs && !V.isRecursive(fn) && fn.Recover == nil && !V.noInline[n]
	}
	callersOf := func(callee *ssa.Function) []*ssa.Function {
		var out []*ssa.Function
		for _, g := range P.All {
			for _, b := range g.Blocks {
				for _, ins := range b.Instrs {
					if ci, ok := ins.(ssa.CallInstruction); ok && ci.Common().StaticCallee() == callee {
						out = append(out, g)
					}
				}
			}
		}
		return out
	}
	if len(reqKeys) > 0 {
		for _, fn := range P.All {
			for _, b := range fn.Blocks {
				for _, ins := range b.Instrs {
					ci, ok := ins.(ssa.CallInstruction)
					if !ok {
						continue
					}
					cc := ci.Common()
					hit := false
					if callee := cc.StaticCallee(); callee != nil {
						hit = reqKeys[funcName(callee)]
					} else if cc.IsInvoke() {
						hit = reqKeys["iface:"+typeStr(cc.Value.Type())+"."+cc.Method.Name()]
					}
					if hit {
						if newHelper(fn) {
							for _, g := range callersOf(fn) {
								get(g)
							}
						} else {
							get(fn)
						}
					}
				}
			}
		}
	}
	sweepSet := map[string]bool{}
	if len(cfg.SweepRoots) > 0 {
		for n := range V.reachableFrom(cfg.SweepRoots) {
			sweepSet[n] = true
		}
	}
	for _, fn := range P.All {
		n := funcName(fn)
		if matchAny(cfg.Functions, n) {
			get(fn).contract = true
		}
		if matchAny(cfg.Sweep, n) || sweepSet[n] {
			get(fn).sweep = true
		}
		if matchAny(cfg.Lock, n) && !matchAny(cfg.LockExclude, n) {
			// (a private helper that is new since the contracts were written and has no contract is not verified on its
			// own - it would have to hold no lock at entry - but inlined where it is called, like the statements it was made of)
			if newHelper(fn) {
				continue
			}
			get(fn).lock = true
		}
	}
	if len(jobs) == 0 {
		fmt.Fprintln(os.Stderr, "govc: engine error: no functions selected for", *prop)
		return 2
	}
	var sel []*Obligation
	notes := map[string]bool{}
	for _, nt := range shapeNotes {
		notes[nt] = true
	}
	var fnNames []string
	vacuous := []string{}
	genStart := time.Now()
	for _, n := range sortedKeys(jobs) {
		j := jobs[n]
		fnNames = append(fnNames, n)
		r := V.verifyFunction(j.fn, j.lock)
		for _, nt := range r.Notes {
			notes[nt] = true
		}
		for _, o := range r.Obls {
			switch {
			case sweepKinds[o.Kind]:
				if j.sweep {
					sel = append(sel, o)
				}
			case lockKinds[o.Kind]:
				if j.lock {
					sel = append(sel, o)
				}
			case o.Kind == "frame":
				if j.contract {
					sel = append(sel, o)
				}
			default:
				if labelHasProp(o.Label, *prop) || (o.Label == "" && j.contract) || strings.Contains(o.Name, "does-not-attach") {
					sel = append(sel, o)
				}
			}
		}
		_ = vacuous
	}
	genS := time.Since(genStart).Seconds()
	timeout := 10
	if *tier == "thorough" {
		timeout = 60
		crossCheck = true
	}
	workDir := filepath.Join(verifDir, "work", *prop)
	if d := os.Getenv("GOVC_WORK"); d != "" {
		workDir = filepath.Join(d, *prop)
	}
	os.RemoveAll(workDir)
	solveStart := time.Now()
	discharge(sel, workDir, timeout, 16)
	// an undecided answer may be an artefact of machine load (48 solver processes race on 16 cores, other jobs may run):
	// those obligations get a second, calmer attempt (two at a time, three times the budget) before anything is reported
	var again []*Obligation
	for _, o := range sel {
		if o.Status == "timeout" || o.Status == "unknown" || o.Status == "error" {
			again = append(again, o)
		}
	}
	if len(again) > 0 && len(again) <= 40 {
		discharge(again, filepath.Join(workDir, "retry"), 3*timeout, 2)
	}
	solveS := time.Since(solveStart).Seconds()

	// classify
	var claimed, discharged, violations int
	var knownLines, undecided, violLines []string
	solverCount := map[string]int{}
	var solverMs int64
	var samples []map[string]interface{}
	var failed []*Obligation
	seen := map[string]bool{}
	for _, o := range sel {
		seen[o.Name] = true
	}
	// per function and sweep kind: how many obligations were undecided on the unchanged tree and are not accounted for by
	// an obligation of the same name that is still undecided now
	freeSlots := map[string]int{}
	for n := range base.Unclaimed {
		if isSweepName(n) {
			freeSlots[sweepSlotKey(n)]++
		}
	}
	for _, o := range sel {
		if _, ok := base.Unclaimed[o.Name]; ok && o.Status != "unsat" && isSweepName(o.Name) {
			freeSlots[sweepSlotKey(o.Name)]--
		}
	}
	for _, o := range sel {
		solverMs += o.Millis
		// (known findings are listed under the names the functions had when they were recorded)
		oldName := o.Name
		for ofn, nfn := range shapeFnAlias {
			oldName = strings.ReplaceAll(oldName, nfn+"#", ofn+"#")
			oldName = strings.ReplaceAll(oldName, "requires:"+nfn+":", "requires:"+ofn+":")
		}
		kf, ok := knownBy[oldName]
		if !ok {
			for i := range known {
				if known[i].Property == *prop && known[i].Pattern != "" && matchAny([]string{known[i].Pattern}, oldName) {
					kf, ok = &known[i], true
				}
			}
		}
		if ok {
			if o.Status == "unsat" {
				fmt.Printf("note: known finding %s no longer fails (obligation discharged); the entry is stale\n", o.Name)
				claimed++
				discharged++
			} else {
				knownLines = append(knownLines, fmt.Sprintf("KNOWN-FINDING: property=%s %s: %s", *prop, o.Name, kf.What))
			}
			continue
		}
		if o.Status == "unsat" {
			claimed++
			discharged++
			solverCount[o.Solver]++
			if len(samples) < 8 {
				samples = append(samples, map[string]interface{}{"obligation": o.Name, "at": o.Pos, "what": o.Desc, "solver": o.Solver, "ms": o.Millis})
			}
			continue
		}
		if why, ok := base.Unclaimed[o.Name]; ok {
			undecided = append(undecided, o.Name+" ("+why+")")
			continue
		}
		// the sweep names its obligations by source text: an obligation of the same function and kind that takes the
		// place of an undecided one that has vanished (the expression was reworded) is the same undecided obligation
		if sweepKinds[o.Kind] {
			if k := sweepSlotKey(o.Name); freeSlots[k] > 0 {
				freeSlots[k]--
				undecided = append(undecided, o.Name+" (takes the place of an obligation of the same function and kind that was undecided on the unchanged tree and is gone or decided now)")
				continue
			}
		}
		if *writeBaseline {
			continue
		}
		claimed++
		violations++
		failed = append(failed, o)
	}
	// baseline obligations that vanished
	if haveBase && !*writeBaseline {
		// (a name with an occurrence suffix - the second back edge of a loop, the third return - stands for "one more of
		// the same": it may come and go with harmless edits as long as the obligation it numbers is still generated)
		seenStem := map[string]bool{}
		for n := range seen {
			seenStem[occurrenceStem(n)] = true
		}
		// (likewise the enclosing-case tag: an if/else chain turned into a switch gives the obligations inside it an @case tag,
		// and the reverse removes the tag of a name that had a single tagged variant)
		seenUntagged := map[string]bool{}
		for n := range seen {
			if i := strings.Index(n, "@"); i > 0 {
				seenUntagged[occurrenceStem(n[:i])] = true
			}
		}
		taggedVariants := map[string]int{}
		for _, n := range base.Claimed {
			if i := strings.Index(n, "@"); i > 0 && occurrenceStem(n) == n {
				taggedVariants[n[:i]]++
			}
		}
		retagged := func(n string) bool {
			st := occurrenceStem(n)
			if i := strings.Index(st, "@"); i > 0 {
				return taggedVariants[st[:i]] == 1 && seenStem[st[:i]]
			}
			return seenUntagged[st]
		}
		// (and an obligation at a call that has moved, with the statements around it, into a helper that is new since the
		// contracts were written is generated under the helper's name)
		inNewHelper := map[string]bool{}
		for n := range seen {
			if i := strings.Index(n, "#"); i > 0 && shapeNewFuncs[n[:i]] {
				inNewHelper[occurrenceStem(n[i:])] = true
			}
		}
		moved := func(n string) bool {
			i := strings.Index(n, "#")
			return i > 0 && inNewHelper[occurrenceStem(n[i:])]
		}
		for _, n := range base.Claimed {
			if !seen[n] && !isSweepName(n) && !(occurrenceStem(n) != n && seenStem[occurrenceStem(n)]) && !retagged(n) && !moved(n) {
				violations++
				claimed++
				path := writeReplayFile(*prop, n, "obligation missing: the function or clause under contract is no longer present in the tree (or the contract no longer attaches)", "")
				violLines = append(violLines, fmt.Sprintf("VIOLATION property=%s replay=%s obligation=%s missing no-failing-input-found", *prop, path, n))
			}
		}
	}
	for _, m := range missing {
		violations++
		claimed++
		path := writeReplayFile(*prop, m, "function under contract missing from the tree", "")
		violLines = append(violLines, fmt.Sprintf("VIOLATION property=%s replay=%s function-under-contract-missing=%s no-failing-input-found", *prop, path, m))
	}
	// witness replay: the models of (at most four) failed obligations are turned into calls of the real code
	witnesses := map[*Obligation]*replayResult{}
	{
		var wg sync.WaitGroup
		var mu sync.Mutex
		n := 0
		for _, o := range failed {
			if o.Status != "sat" || n >= 8 || os.Getenv("GOVC_NO_WITNESS") != "" {
				continue
			}
			n++
			wg.Add(1)
			go func(o *Obligation) {
				defer wg.Done()
				r := V.witnessReplay(o, workDir, timeout)
				mu.Lock()
				witnesses[o] = r
				mu.Unlock()
			}(o)
		}
		wg.Wait()
	}
	for _, o := range failed {
		violLines = append(violLines, reportViolation(*prop, o, workDir, witnesses[o]))
	}
	if *writeBaseline {
		nb := Baseline{Property: *prop, Unclaimed: map[string]string{}}
		for _, o := range sel {
			if _, ok := knownBy[o.Name]; ok {
				continue
			}
			isKnown := false
			for i := range known {
				if known[i].Property == *prop && known[i].Pattern != "" && matchAny([]string{known[i].Pattern}, o.Name) {
					isKnown = true
				}
			}
			if isKnown {
				continue
			}
			if o.Status == "unsat" {
				nb.Claimed = append(nb.Claimed, o.Name)
			} else {
				why := base.Unclaimed[o.Name]
				if why == "" {
					why = "undecided on the unchanged tree: " + o.Status + " (engine abstraction; not claimed)"
				}
				nb.Unclaimed[o.Name] = why
			}
		}
		sort.Strings(nb.Claimed)
		os.MkdirAll(filepath.Join(verifDir, "baseline"), 0o755)
		b, _ := json.MarshalIndent(nb, "", " ")
		os.WriteFile(filepath.Join(verifDir, "baseline", *prop+".json"), append(b, '\n'), 0o644)
		fmt.Printf("%s: baseline written: %d claimed, %d unclaimed\n", *prop, len(nb.Claimed), len(nb.Unclaimed))
		// the names the contracts rely on are recorded with the baseline
		if os.Getenv("GOVC_REPO") == "" {
			runShape(nil)
		}
	}
	agreed := 0
	for _, o := range sel {
		if o.Agree >= 2 {
			agreed++
		}
	}
	for _, l := range knownLines {
		fmt.Println(l)
	}
	replayed := map[string]string{}
	raceOut := map[string]string{}
	if *tier == "thorough" {
		// re-confirm the known findings of this property on the real code
		for i := range known {
			k := known[i]
			if k.Property != *prop || k.Replay == "" {
				continue
			}
			parts := strings.SplitN(k.Replay, ":", 2)
			if len(parts) != 2 {
				continue
			}
			if _, err := os.Stat(filepath.Join(verifDir, "replays", parts[0], "zz_verif_replay_test.go")); err != nil {
				continue
			}
			var out []byte
			var err error
			res := "reproduced on the real code"
			if strings.HasPrefix(parts[1], "race:") {
				if raceOut[parts[0]] == "" {
					o, _ := exec.Command(filepath.Join(verifDir, "tools", "replay.sh"), parts[0], "race").CombinedOutput()
					raceOut[parts[0]] = string(o) + " "
				}
				if strings.Contains(raceOut[parts[0]], "RACE-REPRODUCED: "+strings.TrimPrefix(parts[1], "race:")) {
					res = "reproduced on the real code (go test -race reports a DATA RACE)"
				} else {
					res = "NOT reproduced under go test -race in this run"
				}
			} else {
				out, err = exec.Command(filepath.Join(verifDir, "tools", "replay.sh"), parts[0], "^"+parts[1]+"$").CombinedOutput()
				if err != nil || !strings.Contains(string(out), "--- PASS") {
					res = "NOT reproduced (replay test missing or failing): " + firstLine(string(out))
				}
			}
			replayed[k.Replay] = res
			fmt.Printf("replay %s: %s\n", k.Replay, res)
		}
	}
	mustFail := map[string]interface{}{}
	if *tier == "thorough" && os.Getenv("GOVC_NO_SELFTEST") == "" && os.Getenv("GOVC_REPO") == "" {
		mustFail = mustFailCorpus(*prop)
		if nd, _ := mustFail["not_detected"].([]string); len(nd) > 0 {
			// the machinery no longer detects a change it is recorded to detect: not a violation of the property, an engine error
			fmt.Fprintf(os.Stderr, "govc: engine error: must-fail corpus: seeded changes no longer detected by this check: %v\n", nd)
			for _, l := range violLines {
				fmt.Println(l)
			}
			return 2
		}
	}
	for _, l := range violLines {
		fmt.Println(l)
	}
	wall := time.Since(start).Seconds()
	fmt.Printf("%s: %d functions, %d obligations selected: %d claimed, %d discharged, %d known findings, %d undecided (unclaimed), %d violations; load %.1fs gen %.1fs solve %.1fs wall %.1fs\n",
		*prop, len(jobs), len(sel), claimed, discharged, len(knownLines), len(undecided), violations, loadS, genS, solveS, wall)
	if *verbose {
		for _, o := range sel {
			if o.Status != "unsat" {
				fmt.Printf("  %-8s %s [%s] %s\n", o.Status, o.Name, o.Pos, o.Desc)
			}
		}
	}
	// vacuity guard
	if claimed == 0 && violations == 0 {
		fmt.Fprintln(os.Stderr, "govc: engine error: zero obligations claimed (vacuous check)")
		return 2
	}
	// evidence
	assumptions := append([]string{}, standingAssumptions...)
	assumptions = append(assumptions, cfg.Assumed...)
	for _, n := range sortedKeys(notes) {
		assumptions = append(assumptions, n)
	}
	for _, n := range sortedKeys(V.specs.externPure) {
		_ = n
	}
	assumptions = append(assumptions, "effect-free externs (assumed): "+strings.Join(sortedKeys(V.specs.externPure), ", "))
	var trusted []string
	for _, k := range sortedKeys(V.contracts) {
		if V.contracts[k].Trusted {
			trusted = append(trusted, k)
		}
	}
	if len(trusted) > 0 {
		assumptions = append(assumptions, "trusted contracts (assumed at callers, bodies not verified): "+strings.Join(trusted, ", "))
	}
	// data-structure invariants and configuration facts assumed at the entry of a verified function (assume-entry): they are
	// not checked at the callers, so each one is an assumption of this run
	for _, n := range fnNames {
		if c := V.contracts[n]; c != nil {
			for _, cl := range c.Entry {
				assumptions = append(assumptions, "assumed at the entry of "+n+" (not checked at its callers): "+cl.Text)
			}
		}
	}
	ev := map[string]interface{}{
		"property_id": *prop,
		"tier":        *tier,
		"seed":        seed,
		"level":       "proof",
		"wall_s":      wall,
		"violations":  violations,
		"assumptions": assumptions,
		"coverage": map[string]interface{}{
			"obligations":                   claimed,
			"discharged":                    discharged,
			"checker_cmd":                   fmt.Sprintf("bin/govc check -p %s -tier %s  (VCs from go/ssa of /repo's working tree; solvers raced: z3-new 5.1.0, cvc5 1.0.3, z3 4.8.12; timeout %ds)", *prop, *tier, timeout),
			"trusted_base":                  []string{"govc VC generator (/verif/govc): SSA symbolic execution, heap model, contract translation", "golang.org/x/tools/go/ssa v0.29.0 (SSA construction from the Go source)", "SMT solvers z3 5.1.0 / z3 4.8.12 / cvc5 1.0.3 (first definitive answer wins)", "loop cut rule: havoc of loop-modified state + invariant (default invariant true)"},
			"functions_under_contract":      fnNames,
			"discharged_by_solver":          solverCount,
			"solver_ms_total":               solverMs,
			"known_findings":                knownLines,
			"known_findings_replayed":       replayed,
			"agreed_by_two_or_more_solvers": agreed,
			"undecided_unclaimed":           undecided,
			"not_decided_clauses":           cfg.Undecided,
			"bounded_stand_ins":             cfg.Bounded,
			"samples":                       samples,
			"obligations_selected":          len(sel),
			"generation_s":                  genS,
			"solve_s":                       solveS,
			"frame_prefixes_matching_no_component_in_this_run": V.unmatchedFramePrefixes(nil),
			"must_fail_corpus": mustFail,
		},
	}
	if samples == nil {
		ev["coverage"].(map[string]interface{})["samples"] = []interface{}{}
	}
	evDir := filepath.Join(verifDir, "evidence")
	if d := os.Getenv("GOVC_EVIDENCE_DIR"); d != "" {
		evDir = d // scratch runs (seeded changes) must not overwrite the committed evidence
	}
	os.MkdirAll(evDir, 0o755)
	b, _ := json.MarshalIndent(ev, "", " ")
	os.WriteFile(filepath.Join(evDir, *prop+".json"), append(b, '\n'), 0o644)
	if violations > 0 {
		return 1
	}
	return 0
}

var standingAssumptions = []string{
	"contracts attach to the code by name; names that were merely renamed since the baselines were written (functions, parameters, locals) are identified by position, type and signature from baseline/_shape.json, a text site that matches nothing is re-attached to the only call of the same callee, and statements moved into a new uncontracted helper keep their site assertions - each application is listed in the notes of the run",
	"Go integers are mathematical integers (no overflow / truncation modelled, except that a multiplication by a constant >= 1000 in a function under contract carries the side condition that the product fits in 64 bits); float64 is modelled as real",
	"strings are SMT-LIB strings (ids and keys treated as character sequences)",
	"pointer receivers are non-nil; pointer parameters are not nil-checked by the sweep",
	"interface values never hold typed nil maps (JSON-shaped data)",
	"no interior pointers to struct fields escape (Burstall heap: one array per field)",
	"append returns a fresh backing array; copy between slices is exact (memmove), copy from a string havocs the destination",
	"a function-valued parameter is never one of the called function's own function literals",
	"calls without contract: small non-recursive same-module callees are inlined; otherwise the statically inferred write set (per heap component, via CHA for interface calls and signature matching for function values) is havocked and the result is unconstrained",
	"external (non-rulio) functions write only memory directly reachable from their pointer/slice/map arguments and may call function-valued arguments",
	"goroutines: spawned bodies' effects are not applied; channel operations are havoc points; sync.WaitGroup is a no-op",
	"a callee that panics is not modelled as terminating the caller's path (over-approximates reachability)",
}

// sweepSlotKey: function and kind of a sweep obligation ("F#index:keys[i]" -> "F#index").
func sweepSlotKey(n string) string {
	i := strings.Index(n, "#")
	if i < 0 {
		return n
	}
	if j := strings.Index(n[i:], ":"); j >= 0 {
		return n[:i+j]
	}
	return n
}

func isSweepName(n string) bool {
	i := strings.Index(n, "#")
	if i < 0 {
		return false
	}
	k := n[i+1:]
	if j := strings.Index(k, ":"); j >= 0 {
		k = k[:j]
	}
	return sweepKinds[k] || lockKinds[k] || k == "frame"
}

func writeReplayFile(prop, obl, what, model string) string {
	dir := filepath.Join(verifDir, "work", "replay")
	if d := os.Getenv("GOVC_WORK"); d != "" {
		dir = filepath.Join(d, "replay")
	}
	os.MkdirAll(dir, 0o755)
	path := filepath.Join(dir, prop+"_"+safeFile(obl)+".txt")
	var b strings.Builder
	fmt.Fprintf(&b, "property: %s\nobligation: %s\nresult: %s\n", prop, obl, what)
	if model != "" {
		fmt.Fprintf(&b, "\nsolver output:\n%s\n", model)
	}
	os.WriteFile(path, []byte(b.String()), 0o644)
	return path
}

func reportViolation(prop string, o *Obligation, workDir string, rp *replayResult) string {
	what := fmt.Sprintf("obligation failed: %s\nkind: %s\nat: %s\nmeaning: %s\nsolver: %s answered %s in %d ms", o.Name, o.Kind, o.Pos, o.Desc, o.Solver, o.Status, o.Millis)
	suffix := " no-failing-input-found"
	model := o.Model
	if o.Status != "sat" {
		what += "\nundecided: no solver proved the obligation within the budget (it was discharged on the unchanged tree)"
	}
	// try a concrete replay
	if rp != nil {
		what += "\n\n" + rp.text
		if rp.confirmed {
			suffix = ""
		}
	}
	path := writeReplayFile(prop, o.Name, what, model)
	return fmt.Sprintf("VIOLATION property=%s replay=%s obligation=%s status=%s%s", prop, path, o.Name, o.Status, suffix)
}

// reachableFrom: names of rulio functions statically reachable from functions matching the root patterns.
func (V *Verifier) reachableFrom(roots []string) map[string]bool {
	out := map[string]bool{}
	var stack []*ssa.Function
	for _, fn := range V.P.All {
		if matchAny(roots, funcName(fn)) {
			stack = append(stack, fn)
		}
	}
	for len(stack) > 0 {
		g := stack[len(stack)-1]
		stack = stack[:len(stack)-1]
		n := funcName(g)
		if out[n] || g.Blocks == nil || !isRulio(g) || V.isPure(n) {
			continue
		}
		out[n] = true
		for _, b := range g.Blocks {
			for _, ins := range b.Instrs {
				if mc, ok := ins.(*ssa.MakeClosure); ok {
					stack = append(stack, mc.Fn.(*ssa.Function))
				}
				if c, ok := ins.(ssa.CallInstruction); ok {
					cc := c.Common()
					if callee := cc.StaticCallee(); callee != nil {
						stack = append(stack, callee)
					} else if cc.IsInvoke() {
						stack = append(stack, V.implementations(cc)...)
					}
				}
			}
		}
	}
	return out
}

// mustFailCorpus (thorough tier): every seeded change that seeded/CATCH.json records as reported by this property's check is
// applied to a scratch copy of the tree under test and the quick check is run against the copy; it must report a violation.
// Guards the machinery itself against vacuity (a check that passes everything). Changes whose patch does not apply to the
// tree under test are skipped.
func mustFailCorpus(prop string) map[string]interface{} {
	out := map[string]interface{}{}
	var catch struct {
		Changes []struct {
			Id       string   `json:"id"`
			CaughtBy []string `json:"caught_by"`
		} `json:"changes"`
	}
	if err := loadJSON(filepath.Join(verifDir, "seeded", "CATCH.json"), &catch); err != nil {
		out["skipped"] = "no seeded/CATCH.json"
		return out
	}
	var ids []string
	for _, ch := range catch.Changes {
		for _, p := range ch.CaughtBy {
			if p == prop {
				ids = append(ids, ch.Id)
			}
		}
	}
	self, _ := os.Executable()
	var detected, notDetected, skipped []string
	var mu sync.Mutex
	var wg sync.WaitGroup
	sem := make(chan struct{}, 4)
	for _, id := range ids {
		wg.Add(1)
		sem <- struct{}{}
		go func(id string) {
			defer wg.Done()
			defer func() { <-sem }()
			scratch, err := os.MkdirTemp("", "govc-mustfail-")
			if err != nil {
				return
			}
			defer os.RemoveAll(scratch)
			repo := filepath.Join(scratch, "repo")
			if o, err := exec.Command("rsync", "-a", "--exclude", ".git", repoDir+"/", repo+"/").CombinedOutput(); err != nil {
				mu.Lock()
				skipped = append(skipped, id+": copy failed: "+firstLine(string(o)))
				mu.Unlock()
				return
			}
			ap := exec.Command("git", "apply", filepath.Join(verifDir, "seeded", id, "patch.diff"))
			ap.Dir = repo
			if o, err := ap.CombinedOutput(); err != nil {
				mu.Lock()
				skipped = append(skipped, id+": patch does not apply to the tree under test: "+firstLine(string(o)))
				mu.Unlock()
				return
			}
			cmd := exec.Command(self, "check", "-p", prop, "-tier", "quick")
			cmd.Dir = verifDir
			cmd.Env = append(os.Environ(), "GOVC_REPO="+repo, "GOVC_WORK="+filepath.Join(scratch, "work"), "GOVC_EVIDENCE_DIR="+filepath.Join(scratch, "ev"), "GOVC_NO_WITNESS=1", "VERIF_TIER=quick")
			o, _ := cmd.CombinedOutput()
			code := cmd.ProcessState.ExitCode()
			mu.Lock()
			switch {
			case code == 1 && strings.Contains(string(o), "VIOLATION property="+prop):
				detected = append(detected, id)
			case code == 0:
				notDetected = append(notDetected, id)
			default:
				skipped = append(skipped, fmt.Sprintf("%s: check exited %d on the changed copy (%s)", id, code, firstLine(string(o))))
			}
			mu.Unlock()
		}(id)
	}
	wg.Wait()
	sort.Strings(detected)
	sort.Strings(notDetected)
	sort.Strings(skipped)
	out["seeded_changes_recorded_for_this_check"] = len(ids)
	out["detected"] = detected
	out["not_detected"] = notDetected
	out["skipped"] = skipped
	fmt.Printf("must-fail corpus: %d seeded changes recorded for %s, %d detected, %d not detected, %d skipped\n", len(ids), prop, len(detected), len(notDetected), len(skipped))
	return out
}
