package main

type replayResult struct {
	text      string
	confirmed bool
}

// tryReplay turns a solver model into a concrete run against the real code where a recipe exists.
func tryReplay(prop string, o *Obligation) *replayResult {
	return nil
}
