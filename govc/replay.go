package main

import (
	"fmt"
	"os"
	"os/exec"
	"path/filepath"
	"strings"
)

type replayResult struct {
	text      string
	confirmed bool
}

func runReplay(path string) int {
	b, err := os.ReadFile(path)
	if err != nil {
		fmt.Fprintln(os.Stderr, err)
		return 2
	}
	fmt.Print(string(b))
	// known findings with a replay test
	var known []KnownFinding
	loadJSON(filepath.Join(verifDir, "known_findings.json"), &known)
	text := string(b)
	for _, k := range known {
		if k.Replay == "" {
			continue
		}
		if k.Obligation != "" && strings.Contains(text, k.Obligation) {
			parts := strings.SplitN(k.Replay, ":", 2)
			if len(parts) == 2 {
				fmt.Printf("\nreplay test for this obligation: %s in %s\n", parts[1], parts[0])
				cmd := exec.Command(filepath.Join(verifDir, "tools", "replay.sh"), parts[0], "^"+parts[1]+"$")
				cmd.Stdout = os.Stdout
				cmd.Stderr = os.Stderr
				if err := cmd.Run(); err != nil {
					return 1
				}
			}
		}
	}
	return 0
}
