package main

import (
	"fmt"
	"os"
	"os/exec"
	"path/filepath"
	"strings"
)

type replayResult struct {
	text      string
	confirmed bool
}

// tryReplay turns a solver model into a concrete run against the real code where a recipe exists.
// Model-to-test replay is not automated: models are over heap arrays and ghost state. The replay file carries the model.
func tryReplay(prop string, o *Obligation) *replayResult {
	return nil
}

func runReplay(path string) int {
	b, err := os.ReadFile(path)
	if err != nil {
		fmt.Fprintln(os.Stderr, err)
		return 2
	}
	fmt.Print(string(b))
	// known findings with a replay test
	var known []KnownFinding
	loadJSON(filepath.Join(verifDir, "known_findings.json"), &known)
	text := string(b)
	for _, k := range known {
		if k.Replay == "" {
			continue
		}
		if k.Obligation != "" && strings.Contains(text, k.Obligation) {
			parts := strings.SplitN(k.Replay, ":", 2)
			if len(parts) == 2 {
				fmt.Printf("\nreplay test for this obligation: %s in %s\n", parts[1], parts[0])
				cmd := exec.Command(filepath.Join(verifDir, "tools", "replay.sh"), parts[0], "^"+parts[1]+"$")
				cmd.Stdout = os.Stdout
				cmd.Stderr = os.Stderr
				if err := cmd.Run(); err != nil {
					return 1
				}
			}
		}
	}
	return 0
}
