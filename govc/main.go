package main

import (
	"fmt"
	"os"
	"strings"
)

var loadedP *Program
var loadedV *Verifier

// loadAll loads the tree under test once per process (a run over several properties shares the SSA and the contracts).
// shapeNotes: what applyShapeAliases rewrote (reported in the evidence of every check)
var shapeNotes []string

// shapeRenames: per function under contract, parameters / locals renamed since the shape was recorded (old -> new)
var shapeRenames = map[string]map[string]string{}

// shapeNewFuncs: functions that did not exist when the shape was recorded
var shapeNewFuncs = map[string]bool{}

// shapeFnAlias: functions under contract that were renamed (old name -> new name)
var shapeFnAlias = map[string]string{}

func loadAll() (*Program, *Verifier) {
	if loadedP != nil {
		return loadedP, loadedV
	}
	P, err := loadProgram()
	if err != nil {
		fmt.Fprintln(os.Stderr, "govc: engine error:", err)
		os.Exit(2)
	}
	sp, err := loadSpecs(repoDir)
	if err != nil {
		fmt.Fprintln(os.Stderr, "govc: engine error:", err)
		os.Exit(2)
	}
	shapeNotes = applyShapeAliases(P, sp)
	if err := sp.resolveExprs(); err != nil {
		fmt.Fprintln(os.Stderr, "govc: engine error:", err)
		os.Exit(2)
	}
	loadedP, loadedV = P, newVerifier(P, sp)
	return loadedP, loadedV
}

func main() {
	if len(os.Args) < 2 {
		fmt.Fprintln(os.Stderr, "usage: govc <dump|verify|check|...>")
		os.Exit(2)
	}
	switch os.Args[1] {
	case "dump":
		P, err := loadProgram()
		if err != nil {
			fmt.Fprintln(os.Stderr, err)
			os.Exit(2)
		}
		for _, n := range os.Args[2:] {
			fn := P.Funcs[n]
			if fn == nil {
				fmt.Println("no such function", n)
				continue
			}
			fn.WriteTo(os.Stdout)
		}
		if len(os.Args) == 2 {
			for _, f := range P.All {
				fmt.Println(funcName(f))
			}
		}
	case "verify":
		// development: govc verify [-lock] [-v] fn...
		P, V := loadAll()
		lock, verbose := false, false
		var obls []*Obligation
		for _, n := range os.Args[2:] {
			if n == "-lock" {
				lock = true
				continue
			}
			if n == "-v" {
				verbose = true
				continue
			}
			fn := P.Funcs[n]
			if fn == nil {
				fmt.Println("no such function", n)
				continue
			}
			r := V.verifyFunction(fn, lock)
			obls = append(obls, r.Obls...)
			for _, nt := range r.Notes {
				fmt.Println("  note:", nt)
			}
		}
		discharge(obls, "/verif/work/dev", 10, 16)
		for _, o := range obls {
			fmt.Printf("%-8s %-7s %5dms %s  [%s] %s\n", o.Status, o.Solver, o.Millis, o.Name, o.Pos, o.Desc)
			if verbose && o.Status != "unsat" {
				fmt.Println(indent(o.Model, 12))
			}
		}
	case "modset":
		P, V := loadAll()
		for _, n := range os.Args[2:] {
			fn := P.Funcs[n]
			if fn == nil {
				fmt.Println("no such function", n)
				continue
			}
			fmt.Println(n)
			for _, k := range sortedKeys(V.modSet(fn)) {
				fmt.Println("   ", k)
			}
		}
	case "check":
		os.Exit(runCheck(os.Args[2:]))
	case "shape":
		// govc shape: record the names the contracts rely on (functions, parameters, locals) in baseline/_shape.json
		os.Exit(runShape(os.Args[2:]))
	case "replay":
		// govc replay <path>: show what a VIOLATION's replay file records (obligation, meaning, solver answer and model)
		// and, where a hand-written replay test exists for the obligation (known findings / repaired defects), run it
		// against the real code with go test -overlay.
		if len(os.Args) < 3 {
			fmt.Fprintln(os.Stderr, "usage: govc replay <path>")
			os.Exit(2)
		}
		os.Exit(runReplay(os.Args[2]))
	default:
		fmt.Fprintln(os.Stderr, "unknown command")
		os.Exit(2)
	}
}

func indent(s string, n int) string {
	lines := strings.Split(s, "\n")
	if len(lines) > 60 {
		lines = lines[:60]
	}
	return strings.Repeat(" ", 4) + strings.Join(lines, "\n    ")
}
