package main

import (
	"bytes"
	"fmt"
	"go/ast"
	"go/printer"
	"go/token"
	"go/types"
	"os"
	"sort"
	"strconv"
	"strings"

	"golang.org/x/tools/go/ssa"
)

type Verifier struct {
	P          *Program
	specs      *Specs
	contracts  map[string]*Contract
	guards     map[string]*Guard
	noInline   map[string]bool
	funcIDs    map[*ssa.Function]int
	inlineSeq  int
	modCache   map[*ssa.Function]map[string]bool
	recCache   map[*ssa.Function]bool
	addrTaken  map[*ssa.Function]bool
	impls      map[string][]*ssa.Function // iface method key -> implementations
	astCache   map[*token.File]*ast.File
	lockExempt func(ex *Exec, f *frame, st *State) Term
	// per-exec scratch (reset by newExec)
	compSorts  map[string]string
	seedComps  map[string]string
	acqCache   map[*ssa.Function]map[string]bool
	allComps   map[string]bool // every component registered by any function of this run (for the frame-prefix sanity report)
	globalSeen map[*Script]map[string]bool
	typesSeen  map[*Script]map[string]types.Type
	ifacesSeen map[*Script]map[string]*types.Interface
}

func (V *Verifier) fatal(format string, a ...interface{}) {
	fmt.Fprintf(os.Stderr, "govc: engine error: "+format+"\n", a...)
	os.Exit(2)
}

func newVerifier(P *Program, sp *Specs) *Verifier {
	V := &Verifier{P: P, specs: sp, contracts: sp.contracts, guards: sp.guards, noInline: sp.noInline,
		funcIDs: map[*ssa.Function]int{}, modCache: map[*ssa.Function]map[string]bool{}, recCache: map[*ssa.Function]bool{},
		globalSeen: map[*Script]map[string]bool{}, typesSeen: map[*Script]map[string]types.Type{}, ifacesSeen: map[*Script]map[string]*types.Interface{},
		astCache: map[*token.File]*ast.File{}}
	// stable function ids
	for i, fn := range P.All {
		V.funcIDs[fn] = 1000 + i
	}
	V.computeAddrTaken()
	return V
}

func (V *Verifier) isPure(name string) bool { return V.specs.externPure[name] }

func (V *Verifier) noteType(sc *Script, t types.Type) {
	m := V.typesSeen[sc]
	if m == nil {
		m = map[string]types.Type{}
		V.typesSeen[sc] = m
	}
	m[typeStr(t)] = t
}

func (V *Verifier) noteIface(sc *Script, key string, it *types.Interface) {
	m := V.ifacesSeen[sc]
	if m == nil {
		m = map[string]*types.Interface{}
		V.ifacesSeen[sc] = m
	}
	m[key] = it
}

// finishAxioms adds implements-facts for every (concrete type, interface) pair seen in the script.
func (V *Verifier) finishAxioms(sc *Script) {
	for _, ik := range sortedKeys(V.ifacesSeen[sc]) {
		it := V.ifacesSeen[sc][ik]
		fn := sc.declareFun("impl:"+ik, []string{SInt}, SBool)
		for _, tk := range sortedKeys(V.typesSeen[sc]) {
			t := V.typesSeen[sc][tk]
			impl := types.Implements(t, it)
			fact := app(SBool, fn, sc.typeID(t))
			if !impl {
				fact = not(fact)
			}
			sc.axiom(fact)
		}
	}
}

// enclosingCase: the first expression of the innermost switch case clause containing pos ("" if none).
func (V *Verifier) enclosingCase(pos token.Pos) string {
	if !pos.IsValid() {
		return ""
	}
	tf := V.P.Fset.File(pos)
	if tf == nil {
		return ""
	}
	var af *ast.File
	for _, p := range V.P.Pkgs {
		for _, f := range p.Syntax {
			if V.P.Fset.File(f.Pos()) == tf {
				af = f
			}
		}
	}
	if af == nil {
		return ""
	}
	best := ""
	ast.Inspect(af, func(n ast.Node) bool {
		if n == nil {
			return false
		}
		if !(n.Pos() <= pos && pos < n.End()) {
			return false
		}
		if cc, ok := n.(*ast.CaseClause); ok && len(cc.List) > 0 {
			var buf bytes.Buffer
			printer.Fprint(&buf, token.NewFileSet(), cc.List[0])
			best = buf.String()
		}
		return true
	})
	return best
}

// srcText gives a short, line-independent rendering of the source expression at pos (for stable obligation names).
func (V *Verifier) srcText(v interface{}, pos token.Pos) string {
	if !pos.IsValid() {
		if sv, ok := v.(ssa.Value); ok {
			return sv.Name()
		}
		return "?"
	}
	tf := V.P.Fset.File(pos)
	if tf == nil {
		return "?"
	}
	af := V.astCache[tf]
	if af == nil {
		for _, p := range V.P.Pkgs {
			for _, f := range p.Syntax {
				if V.P.Fset.File(f.Pos()) == tf {
					af = f
				}
			}
		}
		V.astCache[tf] = af
	}
	if af == nil {
		return "?"
	}
	// go / defer statements: the text of the call they make
	var stmtCall ast.Node
	ast.Inspect(af, func(n ast.Node) bool {
		if n == nil {
			return false
		}
		if !(n.Pos() <= pos && pos < n.End()) {
			return false
		}
		switch s := n.(type) {
		case *ast.GoStmt:
			if s.Go == pos {
				stmtCall = s.Call
			}
		case *ast.DeferStmt:
			if s.Defer == pos {
				stmtCall = s.Call
			}
		case *ast.ReturnStmt:
			if _, isRet := v.(*ssa.Return); isRet && s.Return == pos {
				stmtCall = s
			}
		}
		return true
	})
	if stmtCall != nil {
		var buf bytes.Buffer
		printer.Fprint(&buf, token.NewFileSet(), stmtCall)
		s := strings.Join(strings.Fields(buf.String()), " ")
		if len(s) > 60 {
			s = s[:60]
		}
		return s
	}
	// innermost expression whose Pos()==pos, or which contains pos
	var best ast.Node
	ast.Inspect(af, func(n ast.Node) bool {
		if n == nil {
			return false
		}
		if n.Pos() <= pos && pos < n.End() {
			if _, ok := n.(ast.Expr); ok {
				// prefer the largest expression that starts at or is marked by pos: index/typeassert/call nodes report the position of their bracket/paren
				switch e := n.(type) {
				case *ast.TypeAssertExpr:
					if e.Lparen == pos || e.Pos() == pos {
						best = n
					}
				case *ast.IndexExpr:
					if e.Lbrack == pos || e.Pos() == pos {
						best = n
					}
				case *ast.SliceExpr:
					if e.Lbrack == pos || e.Pos() == pos {
						best = n
					}
				case *ast.CallExpr:
					if e.Lparen == pos || e.Pos() == pos {
						best = n
					}
				case *ast.BinaryExpr:
					if e.OpPos == pos || e.Pos() == pos {
						best = n
					}
				case *ast.SelectorExpr:
					if e.Sel.Pos() == pos || e.Pos() == pos {
						if best == nil {
							best = n
						}
					}
				default:
					if n.Pos() == pos && best == nil {
						best = n
					}
				}
			}
			return true
		}
		return false
	})
	if best == nil {
		return "?"
	}
	var buf bytes.Buffer
	printer.Fprint(&buf, token.NewFileSet(), best)
	s := strings.Join(strings.Fields(buf.String()), " ")
	if len(s) > 60 {
		s = s[:60]
	}
	return s
}

// ---------------------------------------------------------------------------
// applying contracts at call sites

type calleeEnv struct {
	env    *Env
	params map[string]tv
}

func (ex *Exec) contractEnv(c *Contract, callee *ssa.Function, sig *types.Signature, recv Term, recvT types.Type, args []Term, st, old *State) *Env {
	env := &Env{ex: ex, vars: map[string]tv{}, st: st, old: old}
	env.entryAlloc = ex.sc.declare("pre:"+compAlloc, SInt)
	if callee != nil && len(callee.Params) == 0 && (sig.Params().Len() > 0 || sig.Recv() != nil) {
		// external function without a body: bind by signature
		off := 0
		if sig.Recv() != nil && len(args) > 0 {
			n := sig.Recv().Name()
			if n == "" || n == "_" {
				n = "self"
			}
			env.vars[n] = tv{t: args[0], typ: sig.Recv().Type()}
			env.vars["self"] = tv{t: args[0], typ: sig.Recv().Type()}
			off = 1
		}
		for i := 0; i < sig.Params().Len(); i++ {
			if i+off < len(args) {
				p := sig.Params().At(i)
				n := p.Name()
				if n == "" || n == "_" {
					n = fmt.Sprintf("arg%d", i)
				}
				env.vars[n] = tv{t: args[i+off], typ: p.Type()}
				env.vars[fmt.Sprintf("arg%d", i)] = tv{t: args[i+off], typ: p.Type()}
			}
		}
		if callee.Object() != nil && callee.Object().Pkg() != nil {
			env.pkg = callee.Object().Pkg()
		}
	} else if callee != nil {
		if callee.Pkg != nil {
			env.pkg = callee.Pkg.Pkg
		} else if callee.Parent() != nil && callee.Parent().Pkg != nil {
			env.pkg = callee.Parent().Pkg.Pkg
		}
		for i, p := range callee.Params {
			if i < len(args) {
				env.vars[p.Name()] = tv{t: args[i], typ: p.Type()}
			}
		}
	} else {
		if recvT != nil {
			env.vars["self"] = tv{t: recv, typ: recvT}
		}
		for i := 0; i < sig.Params().Len(); i++ {
			if i < len(args) {
				p := sig.Params().At(i)
				n := p.Name()
				if n == "" || n == "_" {
					n = fmt.Sprintf("arg%d", i)
				}
				env.vars[n] = tv{t: args[i], typ: p.Type()}
				env.vars[fmt.Sprintf("arg%d", i)] = tv{t: args[i], typ: p.Type()}
			}
		}
	}
	if env.pkg == nil {
		if sp := ex.V.pkgByShort(c.Pkg); sp != nil {
			env.pkg = sp
		}
	}
	return env
}

func (V *Verifier) pkgByShort(short string) *types.Package {
	for path, sp := range V.P.SSA {
		s := strings.TrimPrefix(path, modPath+"/")
		if s == "storage/bolt" {
			s = "bolt"
		}
		if s == short {
			return sp.Pkg
		}
	}
	return nil
}

func (ex *Exec) checkRequires(f *frame, st *State, c *Contract, callee *ssa.Function, sig *types.Signature, recv Term, args []Term, argVals []ssa.Value, pos token.Pos) {
	env := ex.contractEnv(c, callee, sig, recv, nil, args, st, st)
	env.goal = true
	for _, r := range c.Requires {
		lab := r.Label
		if lab == "" {
			lab = "pre"
		}
		v, err := env.trans(r.Expr)
		if err != nil {
			ex.oblige(f, st, "requires", shortKey(c.Key)+":"+lab+":does-not-attach", r.Label, pos, tFalse, "the contract no longer attaches to the code ("+err.Error()+"): "+r.Text)
			continue
		}
		ex.oblige(f, st, "requires", shortKey(c.Key)+":"+lab, r.Label, pos, v.t, "precondition of "+c.Key+": "+r.Text)
	}
}

func shortKey(k string) string {
	k = strings.TrimPrefix(k, "iface:")
	k = strings.TrimPrefix(k, "funcval:")
	return k
}

func (ex *Exec) applyContract(f *frame, st *State, c *Contract, callee *ssa.Function, sig *types.Signature, recv Term, recvT types.Type, args []Term, argVals []ssa.Value, res ssa.Value, hint string, pos token.Pos) {
	pre := st.clone()
	envPre := ex.contractEnv(c, callee, sig, recv, recvT, args, pre, pre)
	// preconditions (goals: quantifiers are skolemised)
	envGoal := *envPre
	envGoal.goal = true
	for _, r := range c.Requires {
		lab := r.Label
		if lab == "" {
			lab = "pre"
		}
		v, err := envGoal.trans(r.Expr)
		if err != nil {
			ex.oblige(f, st, "requires", shortKey(c.Key)+":"+lab+":does-not-attach", r.Label, pos, tFalse, "the contract no longer attaches to the code ("+err.Error()+"): "+r.Text)
			continue
		}
		ex.oblige(f, st, "requires", shortKey(c.Key)+":"+lab, r.Label, pos, v.t, "precondition of "+c.Key+": "+r.Text)
	}
	// effects
	if c.HasMods {
		if !c.Pure {
			ex.advanceClock(st)
		}
		ex.applyModifies(st, c, envPre)
	} else if callee != nil && callee.Blocks != nil {
		ex.havocSet(st, ex.V.modSet(callee))
	} else if callee != nil {
		ex.havocSet(st, ex.V.modSet(callee))
	} else {
		ex.havocSet(st, map[string]bool{"*": true})
	}
	for _, g := range c.AlsoMods {
		if gv, ok := ex.V.specs.ghosts[g]; ok {
			if sort, _, err := envPre.ghostSort(gv); err == nil {
				ex.regComp("G:"+gv.Name, sort)
			}
			ex.havoc(st, "G:"+gv.Name)
		} else if g == "dyncalls" {
			ex.regComp("G:dyncalls", SInt)
			ex.havoc(st, "G:dyncalls")
		} else {
			ex.havoc(st, g)
		}
	}
	// results
	results := ex.freshResults(f, st, sig, hint)
	ex.setResult(f, res, results)
	envPost := ex.contractEnv(c, callee, sig, recv, recvT, args, st, pre)
	envPost.extraCands = map[string][]Term{}
	for i, a := range args {
		var at types.Type
		if i < len(argVals) && argVals[i] != nil {
			at = argVals[i].Type()
		}
		cl := candClass(a.Sort, at)
		envPost.extraCands[cl] = append(envPost.extraCands[cl], a)
	}
	rs := sig.Results()
	for i := 0; i < rs.Len(); i++ {
		if n := rs.At(i).Name(); n != "" && n != "_" {
			envPost.vars[n] = tv{t: results[i], typ: rs.At(i).Type()}
		}
		envPost.vars[fmt.Sprintf("result%d", i)] = tv{t: results[i], typ: rs.At(i).Type()}
	}
	if rs.Len() >= 1 {
		envPost.vars["result"] = tv{t: results[0], typ: rs.At(0).Type()}
	}
	for _, group := range [][]Clause{c.Ensures, c.GhostEns} {
		for _, e := range group {
			v, err := envPost.trans(e.Expr)
			if err != nil {
				ex.oblige(f, st, "requires", shortKey(c.Key)+":ensures-does-not-attach", e.Label, pos, tFalse, "a clause of the callee's contract no longer attaches ("+err.Error()+"): "+e.Text)
				continue
			}
			ex.assume(st, v.t)
			ex.recordQ(envPost, e.Expr, st.reach)
		}
	}
}

type modItem struct {
	comp string
	ref  *Term // nil = whole component
}

// modItems resolves a contract's modifies list in env (refs evaluated in env.st).
func (ex *Exec) modItems(c *Contract, env *Env) []modItem {
	var out []modItem
	for _, it := range c.Modifies {
		items, err := ex.modItem(it, env)
		if err != nil {
			ex.V.fatal("%s modifies %q: %v", c.Key, it, err)
		}
		out = append(out, items...)
	}
	return out
}

func (ex *Exec) modItem(it string, env *Env) ([]modItem, error) {
	sc := ex.sc
	if it == "*" || it == "everything" {
		return []modItem{{comp: "*"}}, nil
	}
	if strings.HasPrefix(it, "allbut(") {
		// everything except the components with the given name prefixes
		return []modItem{{comp: "*-" + strings.TrimSuffix(strings.TrimPrefix(it, "allbut("), ")")}}, nil
	}
	if strings.HasPrefix(it, "comp(") {
		name := strings.Trim(strings.TrimSuffix(strings.TrimPrefix(it, "comp("), ")"), `"`)
		return []modItem{{comp: name}}, nil
	}
	if g, ok := ex.V.specs.ghosts[it]; ok {
		return []modItem{{comp: "G:" + g.Name}}, nil
	}
	if it == "calls" {
		var out []modItem
		for _, k := range sortedKeys(ex.V.compSorts) {
			if strings.HasPrefix(k, "G:calls:") {
				out = append(out, modItem{comp: k})
			}
		}
		return out, nil
	}
	if strings.HasPrefix(it, "calls(") && strings.HasSuffix(it, ")") {
		e, err := parseSpecExpr(it[len("calls(") : len(it)-1])
		if err != nil {
			return nil, err
		}
		v, err := env.trans(e)
		if err != nil {
			return nil, err
		}
		ref := v.t
		comp := callsComp(v.typ)
		ex.regComp(comp, arraySort(SInt, SInt))
		return []modItem{{comp: comp, ref: &ref}}, nil
	}
	contents := false
	text := it
	if strings.HasSuffix(text, "[*]") {
		contents = true
		text = strings.TrimSuffix(text, "[*]")
	}
	allFields := false
	if strings.HasSuffix(text, ".*") {
		allFields = true
		text = strings.TrimSuffix(text, ".*")
	}
	e, err := parseSpecExpr(text)
	if err != nil {
		return nil, err
	}
	if allFields {
		base, err := env.trans(e)
		if err != nil {
			return nil, err
		}
		p, ok := base.typ.Underlying().(*types.Pointer)
		if !ok {
			return nil, fmt.Errorf("x.* needs a pointer to struct")
		}
		var out []modItem
		var walk func(l *Loc)
		walk = func(l *Loc) {
			if s, ok := l.typ.Underlying().(*types.Struct); ok {
				for i := 0; i < s.NumFields(); i++ {
					walk(ex.fieldLoc(l, i))
				}
				return
			}
			ref := base.t
			comp := compField(l.root, l.path)
			ex.regComp(comp, arraySort(SInt, sc.sortOf(l.typ)))
			out = append(out, modItem{comp: comp, ref: &ref})
		}
		walk(&Loc{kind: "obj", typ: p.Elem(), ref: base.t, root: p.Elem()})
		return out, nil
	}
	if contents {
		v, err := env.trans(e)
		if err != nil {
			return nil, err
		}
		switch u := v.typ.Underlying().(type) {
		case *types.Map:
			ref := v.t
			ks, vs := sc.sortOf(u.Key()), sc.sortOf(u.Elem())
			ex.regComp(compMapDom(u), arraySort(SInt, arraySort(ks, SBool)))
			ex.regComp(compMapVal(u), arraySort(SInt, arraySort(ks, vs)))
			ex.regComp(compMapLen(u), arraySort(SInt, SInt))
			return []modItem{{compMapDom(u), &ref}, {compMapVal(u), &ref}, {compMapLen(u), &ref}}, nil
		case *types.Slice:
			ref := app(SInt, "sarr", v.t)
			ex.regComp(compElem(u.Elem()), arraySort(SInt, arraySort(SInt, sc.sortOf(u.Elem()))))
			return []modItem{{compElem(u.Elem()), &ref}}, nil
		}
		return nil, fmt.Errorf("x[*] needs a map or slice")
	}
	// x.f : a field of the object x points to
	se, ok := e.(*ast.SelectorExpr)
	if !ok {
		return nil, fmt.Errorf("unsupported modifies item")
	}
	base, err := env.trans(se.X)
	if err != nil {
		return nil, err
	}
	r, err := env.selectField(se, base, se.Sel.Name)
	_ = r
	if err != nil {
		return nil, err
	}
	p, ok := base.typ.Underlying().(*types.Pointer)
	if !ok {
		return nil, fmt.Errorf("x.f needs x to be a pointer")
	}
	// locate (possibly promoted) field path
	path, ft := fieldPath(p.Elem(), se.Sel.Name)
	if path == "" {
		return nil, fmt.Errorf("no field %s", se.Sel.Name)
	}
	ref := base.t
	var out []modItem
	var walk func(l *Loc)
	walk = func(l *Loc) {
		if s, ok := l.typ.Underlying().(*types.Struct); ok {
			for i := 0; i < s.NumFields(); i++ {
				walk(ex.fieldLoc(l, i))
			}
			return
		}
		comp := compField(l.root, l.path)
		ex.regComp(comp, arraySort(SInt, sc.sortOf(l.typ)))
		out = append(out, modItem{comp: comp, ref: &ref})
	}
	walk(&Loc{kind: "obj", typ: ft, ref: ref, root: p.Elem(), path: path})
	return out, nil
}

// callsComp: ghost call counters are kept per function signature (values of different signatures are distinct).
func callsComp(t types.Type) string {
	if t == nil {
		return "G:calls:?"
	}
	if sig, ok := t.Underlying().(*types.Signature); ok {
		return "G:calls:" + typeStr(stripRecv(sig))
	}
	return "G:calls:?"
}

func fieldPath(t types.Type, name string) (string, types.Type) {
	st, ok := t.Underlying().(*types.Struct)
	if !ok {
		return "", nil
	}
	for i := 0; i < st.NumFields(); i++ {
		if st.Field(i).Name() == name {
			return name, st.Field(i).Type()
		}
	}
	for i := 0; i < st.NumFields(); i++ {
		if st.Field(i).Embedded() {
			if p, ft := fieldPath(st.Field(i).Type(), name); p != "" {
				return st.Field(i).Name() + "." + p, ft
			}
		}
	}
	return "", nil
}

func (ex *Exec) applyModifies(st *State, c *Contract, env *Env) {
	items := ex.modItems(c, env)
	for _, it := range items {
		if it.comp == "*" {
			ex.havocSet(st, map[string]bool{"*": true})
			continue
		}
		if strings.HasPrefix(it.comp, "*-") {
			pfx := strings.Split(strings.TrimPrefix(it.comp, "*-"), "|")
			for _, k := range sortedKeys(ex.V.compSorts) {
				if k == compAlloc || strings.HasPrefix(k, "LK:") || (strings.HasPrefix(k, "LA:") || strings.HasPrefix(k, "LH:")) || strings.HasPrefix(k, "G:") || strings.HasPrefix(k, "S:") {
					continue
				}
				skip := false
				for _, p := range pfx {
					if strings.HasPrefix(k, strings.TrimSpace(p)) {
						skip = true
					}
				}
				if !skip {
					ex.havoc(st, k)
				}
			}
			continue
		}
		sort, ok := ex.compSort(it.comp)
		if !ok {
			continue
		}
		if it.ref == nil {
			ex.havoc(st, it.comp)
			continue
		}
		cur := ex.get(st, it.comp, sort)
		fresh := ex.sc.freshConst("mod:"+it.comp, arrayElemSort(sort))
		ex.set(st, it.comp, store(cur, *it.ref, fresh))
		// map lengths stay non-negative
		if strings.HasPrefix(it.comp, "ML:") {
			ex.sc.assert(app(SBool, ">=", fresh, intLit(0)))
		}
	}
	ex.havocAlloc(st)
}

// ---------------------------------------------------------------------------
// verifying one function against its contract

type FnResult struct {
	Fn     string
	Obls   []*Obligation
	Notes  []string
	Script *Script
}

func (V *Verifier) newExec(fn *ssa.Function) *Exec {
	V.compSorts = map[string]string{}
	for k, v := range V.seedComps {
		V.compSorts[k] = v
	}
	ex := &Exec{V: V, sc: newScript(), root: fn, notes: map[string]bool{}, counts: map[string]int{}, lkRequired: map[string]bool{}, lkInit: map[string]bool{}, lhInit: map[string]bool{}}
	ex.sc.axiom(app(SBool, ">", ex.sc.declare("pre:"+compAlloc, SInt), intLit(0)))
	ex.regComp(compAlloc, SInt)
	ex.regComp("G:clock", SInt)
	return ex
}

// verifyFunction runs the symbolic execution until the set of heap components it touches is stable: a havoc (at a call or
// at a loop header) can only forget components that are registered, so a component first used AFTER such a havoc point
// (in block order) must be known before the real pass. The first pass discovers them; its obligations are discarded.
func (V *Verifier) verifyFunction(fn *ssa.Function, lockMode bool) *FnResult {
	seed := map[string]string{}
	var r *FnResult
	for pass := 0; pass < 5; pass++ {
		V.seedComps = seed
		r = V.verifyFunctionOnce(fn, lockMode)
		grew := false
		for k, s := range V.compSorts {
			if _, ok := seed[k]; !ok {
				seed[k] = s
				grew = true
			}
		}
		if !grew {
			break
		}
	}
	V.seedComps = nil
	if V.allComps == nil {
		V.allComps = map[string]bool{}
	}
	for k := range seed {
		V.allComps[k] = true
	}
	return r
}

// unmatchedFramePrefixes lists the prefixes of allbut(...) frames (of the contracts used in this run) that match no heap
// component any verified function touched: usually harmless (the component is simply not used here), sometimes a typo.
func (V *Verifier) unmatchedFramePrefixes(used map[string]bool) []string {
	out := map[string]bool{}
	for key, c := range V.contracts {
		if used != nil && !used[key] {
			continue
		}
		for _, it := range c.Modifies {
			if !strings.HasPrefix(it, "allbut(") {
				continue
			}
			for _, p := range strings.Split(strings.TrimSuffix(strings.TrimPrefix(it, "allbut("), ")"), "|") {
				p = strings.TrimSpace(p)
				hit := false
				for k := range V.allComps {
					if strings.HasPrefix(k, p) {
						hit = true
						break
					}
				}
				if !hit {
					out[p] = true
				}
			}
		}
	}
	return sortedKeys(out)
}

func (V *Verifier) verifyFunctionOnce(fn *ssa.Function, lockMode bool) *FnResult {
	ex := V.newExec(fn)
	ex.lockMode = lockMode
	// a context privileged for the hook window is exempt from the state lock (documented protocol)
	V.lockExempt = func(ex *Exec, f *frame, st *State) Term {
		for i, p := range f.fn.Params {
			if p.Name() == "ctx" && typeStr(p.Type()) == "*core.Context" && i < len(f.params) {
				pt := p.Type().Underlying().(*types.Pointer).Elem()
				l := &Loc{kind: "obj", typ: types.Typ[types.String], ref: f.params[i], root: pt, path: "privilege"}
				return and(not(eq(f.params[i], intLit(0))), eq(ex.load(st, l), strLit("hook")))
			}
		}
		return tFalse
	}
	sc := ex.sc
	f := ex.newFrame(fn, "")
	c := V.contracts[funcName(fn)]
	f.contract = c
	entry := &State{reach: tTrue, heap: map[string]Term{}}
	var params []Term
	for _, p := range fn.Params {
		t := sc.declare("p:"+p.Name(), sc.sortOf(p.Type()))
		params = append(params, t)
		ex.wellTyped(entry, t, p.Type())
		if _, isFunc := p.Type().Underlying().(*types.Signature); isFunc {
			// a function-valued parameter is not one of this function's own function literals (standing assumption)
			for _, an := range fn.AnonFuncs {
				sc.assert(not(eq(t, ex.funcRef(an))))
			}
		}
	}
	for _, fv := range fn.FreeVars {
		t := sc.declare("fv:"+fv.Name(), sc.sortOf(fv.Type()))
		f.vals[fv] = t
		ex.wellTyped(entry, t, fv.Type())
	}
	// receivers are non-nil (standing assumption)
	if fn.Signature.Recv() != nil && len(params) > 0 {
		if _, ok := fn.Params[0].Type().Underlying().(*types.Pointer); ok {
			sc.assert(not(eq(params[0], intLit(0))))
		}
	}
	f.params = params
	for i, pt := range params {
		ex.addCand(candClass(pt.Sort, fn.Params[i].Type()), pt)
	}
	if c != nil && (len(c.Modifies) > 0 || c.HasMods) {
		ex.frameRef()
		ex.frameKey(SStr)
		ex.frameKey(SInt)
	}
	if c != nil {
		// skolem constants of this function's own quantified postconditions exist from the start,
		// so that callee contracts assumed along the way are instantiated at them
		genv := ex.frameEnv(f, entry, entry)
		genv.goal = true
		var quantified []ast.Expr
		for _, e := range c.Ensures {
			quantified = append(quantified, e.Expr)
		}
		for _, ls := range c.Loops {
			for _, inv := range ls.Invariants {
				quantified = append(quantified, inv.Expr)
			}
		}
		for _, sa := range c.Sites {
			quantified = append(quantified, sa.Expr)
		}
		for _, e := range c.EachRet {
			quantified = append(quantified, e.Expr)
		}
		var walk func(qe ast.Expr, depth int)
		walk = func(qe ast.Expr, depth int) {
			ast.Inspect(qe, func(n ast.Node) bool {
				if bl, ok := n.(*ast.BasicLit); ok && bl.Kind == token.STRING {
					// string literals of the function's own clauses are instantiation candidates (map keys such as "expires")
					if sv, err := strconv.Unquote(bl.Value); err == nil {
						ex.addCand(SStr, strLit(sv))
					}
				}
				if ce, ok := n.(*ast.CallExpr); ok {
					if id, ok := ce.Fun.(*ast.Ident); ok {
						if id.Name == "forall" && len(ce.Args) == 3 {
							if t, err := genv.typeOf(ce.Args[1]); err == nil {
								ex.skolemFor(types.ExprString(ce), sc.sortOf(t), t)
							}
						} else if d, ok := V.specs.defines[id.Name]; ok && depth < 8 {
							walk(d.Body, depth+1) // quantifiers inside macro bodies
						}
					}
				}
				return true
			})
		}
		for _, qe := range quantified {
			walk(qe, 0)
		}
		// quantified preconditions of (statically) called contracted functions are goals of this function too
		for _, b := range fn.Blocks {
			for _, ins := range b.Instrs {
				if call, ok := ins.(ssa.CallInstruction); ok {
					if callee := call.Common().StaticCallee(); callee != nil {
						if cc := V.contracts[funcName(callee)]; cc != nil {
							for _, r := range cc.Requires {
								walk(r.Expr, 0)
							}
						}
					}
				}
			}
		}
	}
	if c != nil {
		// instantiate <expr>: additional terms (evaluated at entry) for the quantified assumptions of this function
		ienv := ex.frameEnv(f, entry, entry)
		for _, ic := range c.Insts {
			if v, err := ienv.trans(ic.Expr); err == nil {
				ex.addCand(candClass(v.t.Sort, v.typ), v.t)
			} else {
				ex.oblige(f, entry, "requires", "entry:instantiate:does-not-attach", "", fn.Pos(), tFalse, "the contract no longer attaches to the code ("+err.Error()+"): instantiate "+ic.Text)
			}
		}
	}
	if c != nil {
		env := ex.frameEnv(f, entry, entry)
		ex.inRequires = true
		for _, group := range [][]Clause{c.Requires, c.Entry} {
			for _, r := range group {
				v, err := env.trans(r.Expr)
				if err != nil {
					ex.inRequires = false
					ex.oblige(f, entry, "requires", "entry:"+r.Label+":does-not-attach", r.Label, fn.Pos(), tFalse, "the contract no longer attaches to the code ("+err.Error()+"): "+r.Text)
					ex.inRequires = true
					continue
				}
				sc.assert(v.t)
				ex.recordQ(env, r.Expr, tTrue)
			}
		}
		ex.inRequires = false
	}
	if c != nil {
		for _, sa := range c.Sites {
			sa.Hits = 0
		}
		V.resolveSites(fn, c)
	}
	// gate ghosts: no permission is held at entry unless the contract requires it
	for _, gn := range sortedKeys(V.specs.ghosts) {
		g := V.specs.ghosts[gn]
		if !g.Gate {
			continue
		}
		mentioned := false
		if c != nil {
			for _, r := range c.Requires {
				if containsIdent(r.Text, g.Name) {
					mentioned = true
				}
			}
		}
		if !mentioned {
			sc.assert(not(ex.get(entry, "G:"+g.Name, SBool)))
		}
	}
	ex.initMarks(f, entry)
	ex.runBody(f, entry, params)
	if c != nil && f.exit.reach.S != "false" {
		env := ex.frameEnv(f, f.exit, f.entry)
		env.goal = true
		for _, e := range c.Ensures {
			lab := e.Label
			if lab == "" {
				lab = "post"
			}
			v, err := env.trans(e.Expr)
			if err != nil {
				ex.oblige(f, f.exit, "ensures", trimLabel2(lab)+":does-not-attach", e.Label, fn.Pos(), tFalse, "the contract no longer attaches to the code ("+err.Error()+"): "+e.Text)
				continue
			}
			o := ex.oblige(f, f.exit, "ensures", trimLabel2(lab), e.Label, fn.Pos(), v.t, "postcondition: "+e.Text)
			if o != nil {
				if ce, ok := e.Expr.(*ast.CallExpr); ok {
					// (an antecedent that reads a mark - "if the code ever gets there in that state" - is meant to be
					// unreachable in conforming code: only the path condition is covered then)
					if id, ok := ce.Fun.(*ast.Ident); ok && id.Name == "implies" && len(ce.Args) == 2 && !containsIdent(e.Text, "marked") {
						if a, err := env.trans(ce.Args[0]); err == nil {
							o.Ante = &a.t
						}
					}
				}
			}
		}
		if c.HasMods {
			ex.frameObligations(f, c)
		}
		for _, sa := range c.Sites {
			if sa.Hits == 0 {
				ex.oblige(f, f.exit, "assert", sa.Label+":site-missing", sa.Label, fn.Pos(), tFalse, "the instruction the assertion is attached to ("+sa.Site+") no longer exists in the function")
			}
		}
		if ex.lockMode {
			ex.lockBalance(f, c)
		}
	} else if ex.lockMode && f.exit.reach.S != "false" {
		ex.lockBalance(f, c)
	}
	V.finishAxioms(sc)
	res := &FnResult{Fn: funcName(fn), Obls: ex.obls, Script: sc}
	res.Notes = sortedKeys(ex.notes)
	return res
}

func trimLabel2(l string) string { return l }

func containsIdent(text, name string) bool {
	i := 0
	for {
		j := strings.Index(text[i:], name)
		if j < 0 {
			return false
		}
		j += i
		before := j == 0 || !isIdentChar(text[j-1])
		after := j+len(name) >= len(text) || !isIdentChar(text[j+len(name)])
		if before && after {
			return true
		}
		i = j + len(name)
	}
}

func isIdentChar(c byte) bool {
	return c == '_' || c >= 'a' && c <= 'z' || c >= 'A' && c <= 'Z' || c >= '0' && c <= '9'
}

// lockBalance: every mutex is in the same state at exit as at entry unless the contract says otherwise (ensures over held()).
func (ex *Exec) lockBalance(f *frame, c *Contract) {
	if c != nil {
		for _, m := range c.Modifies {
			if m == "locks" {
				return
			}
		}
	}
	for _, k := range sortedKeys(f.exit.heap) {
		if !strings.HasPrefix(k, "LK:") {
			continue
		}
		sort := ex.compSorts(k)
		pre := ex.sc.declare("pre:"+k, sort)
		post := f.exit.heap[k]
		if pre.S == post.S {
			continue
		}
		r := ex.sc.freshConst("lkref", SInt)
		ex.oblige(f, f.exit, "lock", "balanced:"+strings.TrimPrefix(k, "LK:"), "", f.fn.Pos(), eq(sel(post, r), sel(pre, r)), "every mutex of "+k+" is in the same state at return as at entry")
	}
}

func (ex *Exec) compSorts(k string) string { return ex.V.compSorts[k] }

// frameRef: the arbitrary pre-existing object of the frame obligations. It exists from the start of the function so that
// quantified invariants and callee postconditions assumed along the way are instantiated at it.
func (ex *Exec) frameRef() Term {
	t := ex.sc.declare("frameref", SInt)
	ex.addCand("Int#ref", t)
	// a slice over the frame object's backing array, so that clauses quantified over slices reach its elements
	ex.addCand(SSlice, app(SSlice, "mkSlice", t, intLit(0), intLit(0)))
	return t
}

func (ex *Exec) frameKey(sort string) Term {
	t := ex.sc.declare("framekey:"+sort, sort)
	cl := sort
	if sort == SInt {
		cl = "Int#idx"
	}
	ex.addCand(cl, t)
	return t
}

// frameObligations: everything outside the declared modifies clause is unchanged for objects that existed at entry.
func (ex *Exec) frameObligations(f *frame, c *Contract) {
	env := ex.frameEnv(f, f.entry, f.entry)
	items := ex.modItems(c, env)
	allowedWhole := map[string]bool{}
	allowedRefs := map[string][]Term{}
	for _, it := range items {
		if it.comp == "*" || strings.HasPrefix(it.comp, "*-") {
			return
		}
		if it.ref == nil {
			allowedWhole[it.comp] = true
		} else {
			allowedRefs[it.comp] = append(allowedRefs[it.comp], *it.ref)
		}
	}
	for _, g := range c.AlsoMods {
		if gv, ok := ex.V.specs.ghosts[g]; ok {
			allowedWhole["G:"+gv.Name] = true
		}
	}
	n0 := ex.sc.declare("pre:"+compAlloc, SInt)
	for _, k := range sortedKeys(f.exit.heap) {
		if k == compAlloc || k == "G:clock" || strings.HasPrefix(k, "LK:") || (strings.HasPrefix(k, "LA:") || strings.HasPrefix(k, "LH:")) || strings.HasPrefix(k, "S:") || allowedWhole[k] {
			continue
		}
		sort := ex.compSorts(k)
		pre := ex.sc.declare("pre:"+k, sort)
		post := f.exit.heap[k]
		if pre.S == post.S {
			continue
		}
		if strings.HasPrefix(sort, "(Array Int ") && !strings.HasPrefix(k, "G:") {
			r := ex.frameRef()
			hyp := []Term{app(SBool, "<", r, n0), not(eq(r, intLit(0)))} // an object that existed at entry (nil is not an object)
			for _, a := range allowedRefs[k] {
				hyp = append(hyp, not(eq(r, a)))
			}
			goal := eq(sel(post, r), sel(pre, r))
			if es := arrayElemSort(sort); strings.HasPrefix(es, "(Array ") {
				// a map component: compared entry by entry at an arbitrary key (which is an instantiation candidate too)
				ks, _ := splitArraySort(es)
				kc := ex.frameKey(ks)
				goal = eq(sel(sel(post, r), kc), sel(sel(pre, r), kc))
				if strings.HasPrefix(k, "MV:") {
					// values matter only at present keys (a lookup of an absent key yields the zero value, never the raw entry);
					// the domain component has its own frame obligation
					dk := "MD:" + strings.TrimPrefix(k, "MV:")
					if dpost, ok := f.exit.heap[dk]; ok {
						goal = implies(sel(sel(dpost, r), kc), goal)
					} else if ds, ok := ex.V.compSorts[dk]; ok {
						goal = implies(sel(sel(ex.sc.declare("pre:"+dk, ds), r), kc), goal)
					}
				}
			}
			ex.oblige(f, f.exit, "frame", k, "", f.fn.Pos(), implies(and(hyp...), goal), "frame: "+k+" unchanged outside the modifies clause")
		} else {
			ex.oblige(f, f.exit, "frame", k, "", f.fn.Pos(), eq(post, pre), "frame: "+k+" unchanged")
		}
	}
}

// ---------------------------------------------------------------------------
// inferred write sets

func (V *Verifier) computeAddrTaken() {
	V.addrTaken = map[*ssa.Function]bool{}
	for _, fn := range V.P.All {
		for _, b := range fn.Blocks {
			for _, ins := range b.Instrs {
				var ops []*ssa.Value
				ops = ins.Operands(ops)
				for i, op := range ops {
					if op == nil || *op == nil {
						continue
					}
					if callee, ok := (*op).(*ssa.Function); ok {
						// operand 0 of a call in call position is not address-taking
						if c, isCall := ins.(ssa.CallInstruction); isCall && i == 0 && c.Common().Value == callee {
							continue
						}
						V.addrTaken[callee] = true
					}
					if mc, ok := (*op).(*ssa.MakeClosure); ok {
						_ = mc
					}
				}
				if mc, ok := ins.(*ssa.MakeClosure); ok {
					V.addrTaken[mc.Fn.(*ssa.Function)] = true
				}
			}
		}
	}
}

func (V *Verifier) isRecursive(fn *ssa.Function) bool {
	if r, ok := V.recCache[fn]; ok {
		return r
	}
	// reachable from itself through static calls
	seen := map[*ssa.Function]bool{}
	var stack []*ssa.Function
	push := func(g *ssa.Function) {
		for _, b := range g.Blocks {
			for _, ins := range b.Instrs {
				if c, ok := ins.(ssa.CallInstruction); ok {
					if callee := c.Common().StaticCallee(); callee != nil && callee.Blocks != nil && isRulio(callee) {
						stack = append(stack, callee)
					} else if c.Common().IsInvoke() {
						for _, impl := range V.implementations(c.Common()) {
							stack = append(stack, impl)
						}
					}
				}
			}
		}
	}
	push(fn)
	rec := false
	for len(stack) > 0 {
		g := stack[len(stack)-1]
		stack = stack[:len(stack)-1]
		if g == fn {
			rec = true
			break
		}
		if seen[g] {
			continue
		}
		seen[g] = true
		push(g)
	}
	V.recCache[fn] = rec
	return rec
}

func (V *Verifier) implementations(cc *ssa.CallCommon) []*ssa.Function {
	it, ok := cc.Value.Type().Underlying().(*types.Interface)
	if !ok {
		return nil
	}
	key := typeStr(cc.Value.Type()) + "." + cc.Method.Name()
	if V.impls == nil {
		V.impls = map[string][]*ssa.Function{}
	}
	if r, ok := V.impls[key]; ok {
		return r
	}
	var out []*ssa.Function
	for _, sp := range V.P.SSA {
		for _, mem := range sp.Members {
			tn, ok := mem.(*ssa.Type)
			if !ok {
				continue
			}
			for _, t := range []types.Type{tn.Type(), types.NewPointer(tn.Type())} {
				if _, isIface := t.Underlying().(*types.Interface); isIface {
					continue
				}
				if types.Implements(t, it) {
					ms := V.P.Prog.MethodSets.MethodSet(t)
					sel := ms.Lookup(cc.Method.Pkg(), cc.Method.Name())
					if sel != nil {
						if m := V.P.Prog.MethodValue(sel); m != nil {
							out = append(out, m)
						}
					}
				}
			}
		}
	}
	sort.Slice(out, func(i, j int) bool { return out[i].String() < out[j].String() })
	V.impls[key] = out
	return out
}

func (V *Verifier) invokeMods(cc *ssa.CallCommon) map[string]bool {
	out := map[string]bool{}
	impls := V.implementations(cc)
	if len(impls) == 0 {
		// interface implemented outside rulio (error, io.Writer, ...): assume no effect on modelled rulio state
		return out
	}
	for _, m := range impls {
		for k := range V.modSet(m) {
			out[k] = true
		}
	}
	return out
}

func (V *Verifier) dynMods(sig *types.Signature) map[string]bool {
	out := map[string]bool{}
	for fn := range V.addrTaken {
		if types.Identical(stripRecv(fn.Signature), stripRecv(sig)) {
			for k := range V.modSet(fn) {
				out[k] = true
			}
		}
	}
	return out
}

func stripRecv(s *types.Signature) *types.Signature {
	return types.NewSignatureType(nil, nil, nil, s.Params(), s.Results(), s.Variadic())
}

// modSet: heap components a call to fn may write (transitively), by static analysis of the SSA.
func (V *Verifier) modSet(fn *ssa.Function) map[string]bool {
	if r, ok := V.modCache[fn]; ok {
		return r
	}
	// iterative fixpoint over the reachable call graph
	direct := map[*ssa.Function]map[string]bool{}
	callees := map[*ssa.Function][]*ssa.Function{}
	var order []*ssa.Function
	var visit func(g *ssa.Function)
	visit = func(g *ssa.Function) {
		if _, ok := direct[g]; ok {
			return
		}
		d := map[string]bool{}
		direct[g] = d
		order = append(order, g)
		if r, ok := V.modCache[g]; ok {
			for k := range r {
				d[k] = true
			}
			return
		}
		if g.Blocks == nil || !isRulio(g) {
			V.externalWrites(g, d)
			return
		}
		for _, b := range g.Blocks {
			for _, ins := range b.Instrs {
				V.staticWrites(ins, d)
				if c, ok := ins.(ssa.CallInstruction); ok {
					cc := c.Common()
					if _, isB := cc.Value.(*ssa.Builtin); isB {
						continue
					}
					if callee := cc.StaticCallee(); callee != nil {
						name := funcName(callee)
						if V.isPure(name) {
							continue
						}
						if ct := V.contracts[name]; ct != nil {
							// ghost state a contracted callee declares it updates is written by whoever calls it
							for _, it := range ct.AlsoMods {
								if gv, ok := V.specs.ghosts[it]; ok {
									d["G:"+gv.Name] = true
								}
							}
						}
						if ct := V.contracts[name]; ct != nil && ct.HasMods {
							V.contractWrites(ct, d)
							continue
						}
						callees[g] = append(callees[g], callee)
						visit(callee)
						if callee.Blocks == nil || !isRulio(callee) {
							// function-valued arguments may be called by the external function
							for _, a := range cc.Args {
								if sig, ok := a.Type().Underlying().(*types.Signature); ok {
									if af, ok := a.(*ssa.Function); ok {
										callees[g] = append(callees[g], af)
										visit(af)
									} else if mc, ok := a.(*ssa.MakeClosure); ok {
										af := mc.Fn.(*ssa.Function)
										callees[g] = append(callees[g], af)
										visit(af)
									} else {
										for h := range V.addrTaken {
											if types.Identical(stripRecv(h.Signature), stripRecv(sig)) {
												callees[g] = append(callees[g], h)
												visit(h)
											}
										}
									}
								}
							}
						}
					} else if cc.IsInvoke() {
						key := "iface:" + typeStr(cc.Value.Type()) + "." + cc.Method.Name()
						if ct := V.contracts[key]; ct != nil {
							for _, it := range ct.AlsoMods {
								if gv, ok := V.specs.ghosts[it]; ok {
									d["G:"+gv.Name] = true
								}
							}
						}
						if ct := V.contracts[key]; ct != nil && ct.HasMods {
							V.contractWrites(ct, d)
							continue
						}
						for _, m := range V.implementations(cc) {
							callees[g] = append(callees[g], m)
							visit(m)
						}
					} else {
						for h := range V.addrTaken {
							if types.Identical(stripRecv(h.Signature), stripRecv(cc.Signature())) {
								callees[g] = append(callees[g], h)
								visit(h)
							}
						}
					}
				}
			}
		}
	}
	visit(fn)
	changed := true
	for changed {
		changed = false
		for _, g := range order {
			for _, h := range callees[g] {
				for k := range direct[h] {
					if !direct[g][k] {
						direct[g][k] = true
						changed = true
					}
				}
			}
		}
	}
	for _, g := range order {
		if _, ok := V.modCache[g]; !ok {
			V.modCache[g] = direct[g]
		}
	}
	return V.modCache[fn]
}

// contractWrites: component-level over-approximation of a contract's modifies clause (used only for inferred sets).
func (V *Verifier) contractWrites(ct *Contract, d map[string]bool) {
	if len(ct.Modifies) > 0 || len(ct.AlsoMods) > 0 {
		d["?contract:"+ct.Key] = true
	}
}

// shallowWrites: memory directly reachable through a pointer / slice / map value of type t (one more level
// for pointers to maps, slices and structs holding them, as decoders fill those in).
func (V *Verifier) shallowWrites(t types.Type, d map[string]bool) {
	var add func(t types.Type, depth int)
	add = func(t types.Type, depth int) {
		if depth > 2 {
			return
		}
		switch u := t.Underlying().(type) {
		case *types.Pointer:
			if st, ok := u.Elem().Underlying().(*types.Struct); ok {
				d["F:"+namedKey(u.Elem())+".*"] = true
				for i := 0; i < st.NumFields(); i++ {
					add(st.Field(i).Type(), depth+1)
				}
			} else {
				d[compCell(u.Elem())] = true
				add(u.Elem(), depth+1)
			}
		case *types.Slice:
			d[compElem(u.Elem())] = true
		case *types.Map:
			d[compMapDom(u)] = true
			d[compMapVal(u)] = true
			d[compMapLen(u)] = true
		}
	}
	add(t, 0)
}

func (V *Verifier) externalWrites(g *ssa.Function, d map[string]bool) {
	// shallow: memory directly reachable through pointer / slice / map parameters
	sig := g.Signature
	add := func(t types.Type) { V.shallowWrites(t, d) }
	if sig.Recv() != nil {
		add(sig.Recv().Type())
	}
	for i := 0; i < sig.Params().Len(); i++ {
		add(sig.Params().At(i).Type())
	}
}

func (V *Verifier) staticWrites(ins ssa.Instruction, d map[string]bool) {
	switch x := ins.(type) {
	case *ssa.Store:
		V.addrComp(x.Addr, d)
	case *ssa.MapUpdate:
		m := x.Map.Type().Underlying().(*types.Map)
		d[compMapDom(m)] = true
		d[compMapVal(m)] = true
		d[compMapLen(m)] = true
	case ssa.CallInstruction:
		cc := x.Common()
		if b, ok := cc.Value.(*ssa.Builtin); ok {
			switch b.Name() {
			case "delete":
				m := cc.Args[0].Type().Underlying().(*types.Map)
				d[compMapDom(m)] = true
				d[compMapLen(m)] = true
			case "copy":
				// (append is modelled as returning a fresh backing array - standing assumption - so it writes
				// no caller-visible element component)
				if sl, ok := cc.Args[0].Type().Underlying().(*types.Slice); ok {
					d[compElem(sl.Elem())] = true
				}
			}
		}
	}
}

func (V *Verifier) addrComp(addr ssa.Value, d map[string]bool) {
	switch a := addr.(type) {
	case *ssa.FieldAddr:
		// walk to the base pointer
		path := ""
		var cur ssa.Value = a
		for {
			fa, ok := cur.(*ssa.FieldAddr)
			if !ok {
				break
			}
			st := fa.X.Type().Underlying().(*types.Pointer).Elem().Underlying().(*types.Struct)
			n := st.Field(fa.Field).Name()
			if path == "" {
				path = n
			} else {
				path = n + "." + path
			}
			cur = fa.X
		}
		if ia, ok := cur.(*ssa.IndexAddr); ok {
			V.addrComp(ia, d)
			return
		}
		root := cur.Type().Underlying().(*types.Pointer).Elem()
		// the stored value may itself be a struct: all leaves under path
		ft := addr.Type().Underlying().(*types.Pointer).Elem()
		var walk func(p string, t types.Type)
		walk = func(p string, t types.Type) {
			if s, ok := t.Underlying().(*types.Struct); ok {
				for i := 0; i < s.NumFields(); i++ {
					walk(p+"."+s.Field(i).Name(), s.Field(i).Type())
				}
				return
			}
			d[compField(root, p)] = true
		}
		walk(path, ft)
	case *ssa.IndexAddr:
		switch u := a.X.Type().Underlying().(type) {
		case *types.Slice:
			d[compElem(u.Elem())] = true
		case *types.Pointer:
			d[compElem(u.Elem().Underlying().(*types.Array).Elem())] = true
		}
	default:
		pt := addr.Type().Underlying().(*types.Pointer).Elem()
		if s, ok := pt.Underlying().(*types.Struct); ok {
			var walk func(p string, t types.Type)
			walk = func(p string, t types.Type) {
				if s, ok := t.Underlying().(*types.Struct); ok {
					for i := 0; i < s.NumFields(); i++ {
						q := s.Field(i).Name()
						if p != "" {
							q = p + "." + q
						}
						walk(q, s.Field(i).Type())
					}
					return
				}
				d[compField(pt, p)] = true
			}
			_ = s
			walk("", pt)
		} else {
			d[compCell(pt)] = true
		}
	}
}

// loopMods: components written inside a loop body (for havoc at the header).
func (V *Verifier) loopMods(fn *ssa.Function, li *loopInfo) []string {
	d := map[string]bool{}
	ct := V.contracts[funcName(fn)]
	for b := range li.body {
		for _, ins := range b.Instrs {
			V.staticWrites(ins, d)
			if ct != nil {
				// a mark whose site lies in the loop is set by the loop
				for _, sa := range ct.Sites {
					if sa.Mark && V.siteMatches(sa, ins) {
						d[markComp(fn, sa.Label)] = true
					}
				}
			}
			if _, ok := ins.(*ssa.Alloc); ok {
				d[compAlloc] = true
			}
			if c, ok := ins.(ssa.CallInstruction); ok {
				cc := c.Common()
				if _, isB := cc.Value.(*ssa.Builtin); isB {
					continue
				}
				d[compAlloc] = true
				if callee := cc.StaticCallee(); callee != nil {
					if V.isPure(funcName(callee)) {
						continue
					}
					switch callee.String() {
					case "(*sync.Mutex).Lock", "(*sync.RWMutex).Lock", "(*sync.Mutex).Unlock", "(*sync.RWMutex).Unlock", "(*sync.RWMutex).RLock", "(*sync.RWMutex).RUnlock":
						d["LK:*"] = true
						continue
					case "time.Now", "time.Since":
						d["G:clock"] = true
						continue
					}
					if ct := V.contracts[funcName(callee)]; ct != nil && ct.HasMods {
						d["?contract:"+ct.Key] = true
						continue
					} else if ct != nil {
						for _, it := range ct.AlsoMods {
							if g, ok := V.specs.ghosts[it]; ok {
								d["G:"+g.Name] = true
							}
						}
					}
					for k := range V.modSet(callee) {
						d[k] = true
					}
				} else if cc.IsInvoke() {
					key := "iface:" + typeStr(cc.Value.Type()) + "." + cc.Method.Name()
					if ct := V.contracts[key]; ct != nil && ct.HasMods {
						d["?contract:"+ct.Key] = true
						continue
					} else if ct != nil {
						for _, it := range ct.AlsoMods {
							if g, ok := V.specs.ghosts[it]; ok {
								d["G:"+g.Name] = true
							}
						}
					}
					for k := range V.invokeMods(cc) {
						d[k] = true
					}
				} else {
					d[callsComp(cc.Value.Type())] = true
					for k := range V.dynMods(cc.Signature()) {
						d[k] = true
					}
				}
			}
		}
	}
	return V.expandMods(d)
}

// contractComps: component-level over-approximation of what a contract's modifies clause can touch.
// star=true means "the whole heap" (lock and ghost components excepted).
func (V *Verifier) contractComps(ct *Contract) (comps map[string]bool, star bool) {
	comps = map[string]bool{}
	for _, it := range append(append([]string{}, ct.Modifies...), ct.AlsoMods...) {
		switch {
		case it == "*" || it == "everything":
			star = true
		case strings.HasPrefix(it, "allbut("):
			pfx := strings.Split(strings.TrimSuffix(strings.TrimPrefix(it, "allbut("), ")"), "|")
			for c := range V.compSorts {
				if c == compAlloc || strings.HasPrefix(c, "LK:") || (strings.HasPrefix(c, "LA:") || strings.HasPrefix(c, "LH:")) || strings.HasPrefix(c, "G:") || strings.HasPrefix(c, "S:") {
					continue
				}
				skip := false
				for _, p := range pfx {
					if strings.HasPrefix(c, strings.TrimSpace(p)) {
						skip = true
					}
				}
				if !skip {
					comps[c] = true
				}
			}
		case it == "calls" || strings.HasPrefix(it, "calls("):
			for c := range V.compSorts {
				if strings.HasPrefix(c, "G:calls:") {
					comps[c] = true
				}
			}
		case strings.HasPrefix(it, "comp("):
			comps[strings.Trim(strings.TrimSuffix(strings.TrimPrefix(it, "comp("), ")"), `"`)] = true
		default:
			if g, ok := V.specs.ghosts[it]; ok {
				comps["G:"+g.Name] = true
			} else if cs, ok := V.staticItemComps(ct, it); ok {
				// object-level item: without the call's arguments, the whole components it can touch
				for _, c := range cs {
					comps[c] = true
				}
			} else {
				star = true
			}
		}
	}
	return comps, star
}

// staticItemComps: the heap components an object-level modifies item (x.f, x.*, m[*]) can touch, from the static types
// of the contracted function's parameters.
func (V *Verifier) staticItemComps(ct *Contract, it string) ([]string, bool) {
	var fn *ssa.Function
	for _, g := range V.P.All {
		if funcName(g) == ct.Key {
			fn = g
			break
		}
	}
	if fn == nil {
		return nil, false
	}
	params := map[string]types.Type{}
	for _, p := range fn.Params {
		params[p.Name()] = p.Type()
	}
	text := it
	contents, allFields := false, false
	if strings.HasSuffix(text, "[*]") {
		contents = true
		text = strings.TrimSuffix(text, "[*]")
	}
	if strings.HasSuffix(text, ".*") {
		allFields = true
		text = strings.TrimSuffix(text, ".*")
	}
	e, err := parseSpecExpr(text)
	if err != nil {
		return nil, false
	}
	var typeOf func(e ast.Expr) types.Type
	typeOf = func(e ast.Expr) types.Type {
		switch x := e.(type) {
		case *ast.ParenExpr:
			return typeOf(x.X)
		case *ast.Ident:
			return params[x.Name]
		case *ast.StarExpr:
			if t := typeOf(x.X); t != nil {
				if p, ok := t.Underlying().(*types.Pointer); ok {
					return p.Elem()
				}
			}
		case *ast.IndexExpr:
			if t := typeOf(x.X); t != nil {
				switch u := t.Underlying().(type) {
				case *types.Map:
					return u.Elem()
				case *types.Slice:
					return u.Elem()
				}
			}
		case *ast.SelectorExpr:
			if t := typeOf(x.X); t != nil {
				if p, ok := t.Underlying().(*types.Pointer); ok {
					t = p.Elem()
				}
				if _, ft := fieldPath(t, x.Sel.Name); ft != nil {
					return ft
				}
			}
		}
		return nil
	}
	withPrefix := func(pfx string) []string {
		var out []string
		for c := range V.compSorts {
			if strings.HasPrefix(c, pfx) {
				out = append(out, c)
			}
		}
		return out
	}
	if contents {
		t := typeOf(e)
		if t == nil {
			return nil, false
		}
		switch u := t.Underlying().(type) {
		case *types.Map:
			return []string{compMapDom(u), compMapVal(u), compMapLen(u)}, true
		case *types.Slice:
			return []string{compElem(u.Elem())}, true
		}
		return nil, false
	}
	if allFields {
		t := typeOf(e)
		if t == nil {
			return nil, false
		}
		p, ok := t.Underlying().(*types.Pointer)
		if !ok {
			return nil, false
		}
		return withPrefix("F:" + namedKey(p.Elem()) + "."), true
	}
	se, ok := e.(*ast.SelectorExpr)
	if !ok {
		return nil, false
	}
	bt := typeOf(se.X)
	if bt == nil {
		return nil, false
	}
	p, ok := bt.Underlying().(*types.Pointer)
	if !ok {
		return nil, false
	}
	path, ft := fieldPath(p.Elem(), se.Sel.Name)
	if path == "" {
		return nil, false
	}
	if _, isStruct := ft.Underlying().(*types.Struct); isStruct {
		return withPrefix(compField(p.Elem(), path) + "."), true
	}
	return []string{compField(p.Elem(), path)}, true
}

// expandMods turns wildcard / contract entries into concrete registered component names.
func (V *Verifier) expandMods(d map[string]bool) []string {
	out := map[string]bool{}
	for k := range d {
		switch {
		case k == "*":
			return []string{"*"}
		case strings.HasPrefix(k, "?contract:"):
			ct := V.contracts[strings.TrimPrefix(k, "?contract:")]
			cs, star := V.contractComps(ct)
			for c := range cs {
				out[c] = true
			}
			if star {
				out["?"+ct.Key] = true
			}
		case strings.HasSuffix(k, ".*") && strings.HasPrefix(k, "F:"):
			pfx := strings.TrimSuffix(k, "*")
			for c := range V.compSorts {
				if strings.HasPrefix(c, pfx) {
					out[c] = true
				}
			}
		case k == "LK:*":
			for c := range V.compSorts {
				if strings.HasPrefix(c, "LK:") || (strings.HasPrefix(c, "LA:") || strings.HasPrefix(c, "LH:")) {
					out[c] = true
				}
			}
		default:
			out[k] = true
		}
	}
	var res []string
	star := false
	for k := range out {
		if strings.HasPrefix(k, "?") {
			// a contracted callee with object-level modifies inside a loop: fall back to havoc of the whole heap
			star = true
			continue
		}
		res = append(res, k)
	}
	if star {
		for c := range V.compSorts {
			if c == compAlloc || strings.HasPrefix(c, "LK:") || (strings.HasPrefix(c, "LA:") || strings.HasPrefix(c, "LH:")) || strings.HasPrefix(c, "G:") || strings.HasPrefix(c, "S:") {
				continue
			}
			if !out[c] {
				res = append(res, c)
			}
		}
		res = append(res, compAlloc)
	}
	sort.Strings(res)
	return res
}

// staticLockKind: the kind ("pkg.Type.path") of the mutex whose address v is, when it is a field of a struct.
func staticLockKind(v ssa.Value) string {
	path := ""
	cur := v
	for {
		fa, ok := cur.(*ssa.FieldAddr)
		if !ok {
			return ""
		}
		pt, ok := fa.X.Type().Underlying().(*types.Pointer)
		if !ok {
			return ""
		}
		st, ok := pt.Elem().Underlying().(*types.Struct)
		if !ok {
			return ""
		}
		name := st.Field(fa.Field).Name()
		if path == "" {
			path = name
		} else {
			path = name + "." + path
		}
		if inner, ok := fa.X.(*ssa.FieldAddr); ok {
			cur = inner
			continue
		}
		return namedKey(pt.Elem()) + "." + path
	}
}

// acquires: the kinds of mutex a function may lock, directly or through anything it calls (static callees, implementations
// of interface methods, address-taken functions of a matching signature for dynamic calls). Used for the declared lock order.
func (V *Verifier) acquires(fn *ssa.Function) map[string]bool {
	if V.acqCache == nil {
		V.acqCache = map[*ssa.Function]map[string]bool{}
		direct := map[*ssa.Function]map[string]bool{}
		callees := map[*ssa.Function][]*ssa.Function{}
		for _, g := range V.P.All {
			d := map[string]bool{}
			direct[g] = d
			if g.Blocks == nil {
				continue
			}
			for _, b := range g.Blocks {
				for _, ins := range b.Instrs {
					c, ok := ins.(ssa.CallInstruction)
					if !ok {
						continue
					}
					if _, isGo := ins.(*ssa.Go); isGo {
						continue // another goroutine
					}
					cc := c.Common()
					if callee := cc.StaticCallee(); callee != nil {
						switch callee.String() {
						case "(*sync.Mutex).Lock", "(*sync.RWMutex).Lock", "(*sync.RWMutex).RLock":
							if k := staticLockKind(cc.Args[0]); k != "" {
								d[k] = true
							}
							continue
						}
						callees[g] = append(callees[g], callee)
						if mc, ok := cc.Value.(*ssa.MakeClosure); ok {
							callees[g] = append(callees[g], mc.Fn.(*ssa.Function))
						}
					} else if cc.IsInvoke() {
						callees[g] = append(callees[g], V.implementations(cc)...)
					} else {
						for h := range V.addrTaken {
							if types.Identical(stripRecv(h.Signature), stripRecv(cc.Signature())) {
								callees[g] = append(callees[g], h)
							}
						}
					}
				}
			}
		}
		for changed := true; changed; {
			changed = false
			for _, g := range V.P.All {
				for _, h := range callees[g] {
					for k := range direct[h] {
						if !direct[g][k] {
							direct[g][k] = true
							changed = true
						}
					}
				}
			}
		}
		V.acqCache = direct
	}
	return V.acqCache[fn]
}
