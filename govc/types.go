package main

import (
	"fmt"
	"go/types"
	"strings"
)

// sortOf maps a Go type to an SMT sort, declaring struct datatypes on demand.
func (sc *Script) sortOf(t types.Type) string {
	switch u := t.Underlying().(type) {
	case *types.Basic:
		switch {
		case u.Info()&types.IsBoolean != 0:
			return SBool
		case u.Info()&types.IsInteger != 0:
			return SInt
		case u.Info()&types.IsFloat != 0:
			return SReal
		case u.Info()&types.IsString != 0:
			return SStr
		case u.Kind() == types.UnsafePointer:
			return SInt
		case u.Kind() == types.UntypedNil:
			return SVal
		case u.Info()&types.IsComplex != 0:
			return SInt
		}
		return SInt
	case *types.Pointer, *types.Map, *types.Chan, *types.Signature:
		return SInt
	case *types.Interface:
		return SVal
	case *types.Slice:
		return SSlice
	case *types.Array:
		return arraySort(SInt, sc.sortOf(u.Elem()))
	case *types.Struct:
		return sc.structOf(t).name
	case *types.Tuple:
		return "TUPLE"
	case *types.TypeParam:
		return SVal
	}
	panic(fmt.Sprintf("sortOf: unhandled type %s (%T)", t, t.Underlying()))
}

func (sc *Script) structOf(t types.Type) *structSort {
	st := t.Underlying().(*types.Struct)
	key := typeStr(t)
	if _, isNamed := t.(*types.Named); !isNamed {
		key = typeStr(st)
	}
	if ss, ok := sc.structs[key]; ok {
		return ss
	}
	var names, sorts []string
	for i := 0; i < st.NumFields(); i++ {
		f := st.Field(i)
		names = append(names, fmt.Sprintf("%s%d", f.Name(), i))
		sorts = append(sorts, sc.sortOf(f.Type()))
	}
	return sc.structDatatype(key, names, sorts)
}

// zero value of a Go type
func (sc *Script) zero(t types.Type) Term {
	switch u := t.Underlying().(type) {
	case *types.Struct:
		ss := sc.structOf(t)
		if u.NumFields() == 0 {
			return Term{"mk" + ss.name, ss.name}
		}
		var args []Term
		for i := 0; i < u.NumFields(); i++ {
			args = append(args, sc.zero(u.Field(i).Type()))
		}
		return app(ss.name, "mk"+ss.name, args...)
	case *types.Array:
		s := sc.sortOf(t)
		es := sc.sortOf(u.Elem())
		if isSimpleSort(es) {
			return Term{fmt.Sprintf("((as const %s) %s)", s, sc.zero(u.Elem()).S), s}
		}
		return sc.freshConst("zeroarr", s)
	}
	return zeroOfSort(sc.sortOf(t))
}

func isSimpleSort(s string) bool {
	switch s {
	case SInt, SBool, SReal, SStr, SVal, SSlice:
		return true
	}
	return false
}

func zeroOfSort(s string) Term {
	switch s {
	case SInt:
		return Term{"0", SInt}
	case SBool:
		return tFalse
	case SReal:
		return Term{"0.0", SReal}
	case SStr:
		return Term{`""`, SStr}
	case SVal:
		return Term{"VNil", SVal}
	case SSlice:
		return Term{"nilSlice", SSlice}
	}
	panic("zeroOfSort " + s)
}

// typeKey: canonical name of the underlying type, used to name heap components.
func typeKey(t types.Type) string {
	return typeStr(t.Underlying())
}

func namedKey(t types.Type) string {
	if n, ok := t.(*types.Named); ok {
		return typeStr(n)
	}
	if p, ok := t.(*types.Alias); ok {
		return namedKey(types.Unalias(p))
	}
	return typeStr(t.Underlying())
}

// Heap component names.
func compCell(t types.Type) string                { return "C:" + typeKey(t) }
func compElem(t types.Type) string                { return "E:" + typeKey(t) }
func compField(st types.Type, path string) string { return "F:" + namedKey(st) + "." + path }
func compMapDom(m *types.Map) string              { return "MD:" + typeKey(m.Key()) + ":" + typeKey(m.Elem()) }
func compMapVal(m *types.Map) string              { return "MV:" + typeKey(m.Key()) + ":" + typeKey(m.Elem()) }
func compMapLen(m *types.Map) string              { return "ML:" + typeKey(m.Key()) + ":" + typeKey(m.Elem()) }
func compLock(st types.Type, path string) string  { return "LK:" + namedKey(st) + "." + path }

const compAlloc = "alloc"

func isLockType(t types.Type) bool {
	s := typeStr(t)
	return s == "sync.Mutex" || s == "sync.RWMutex"
}

func isPointerLike(t types.Type) bool {
	switch t.Underlying().(type) {
	case *types.Pointer, *types.Map, *types.Chan:
		return true
	}
	return false
}

func shortPos(s string) string {
	if i := strings.LastIndex(s, "/"); i >= 0 {
		return s[i+1:]
	}
	return s
}
